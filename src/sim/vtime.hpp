// Virtual time for the real client, without touching the library:
//  * verif::vclock        - a clock whose now() is a global the driver advances
//  * verif_steady_timer   - basic_waitable_timer on that clock which records every expiry it is armed with
//  * verif_system_clock   - stand-in for std::chrono::system_clock reading the same global
// The client translation unit includes every std/Boost header first (generated preincludes.hpp), then
// `#define steady_timer verif_steady_timer` / `#define system_clock verif_system_clock`, then the library.
#pragma once
#include <boost/asio/basic_waitable_timer.hpp>

#include <chrono>
#include <cstdint>

namespace verif {

extern int64_t g_now_ns;                 // virtual now
void note_expiry(int64_t abs_ns);        // candidate wake-up time (registry lives in driver.cpp)

struct vclock {
    using duration = std::chrono::nanoseconds;
    using rep = duration::rep;
    using period = duration::period;
    using time_point = std::chrono::time_point<vclock, duration>;
    static constexpr bool is_steady = true;
    static time_point now() noexcept { return time_point(duration(g_now_ns)); }
};

struct vwait_traits {
    // only used when the reactor blocks; the driver never lets it block on a virtual timer
    static vclock::duration to_wait_duration(const vclock::duration& d) {
        return d > std::chrono::milliseconds(1) ? vclock::duration(std::chrono::milliseconds(1)) : d;
    }
    static vclock::duration to_wait_duration(const vclock::time_point& t) { return to_wait_duration(t - vclock::now()); }
};

inline void note_tp(const vclock::time_point& tp) {
    if (tp != vclock::time_point::max()) note_expiry(tp.time_since_epoch().count());
}

}  // namespace verif

namespace boost { namespace asio {

class verif_steady_timer : public basic_waitable_timer<verif::vclock, verif::vwait_traits> {
    using base = basic_waitable_timer<verif::vclock, verif::vwait_traits>;
public:
    using base::base;

    std::size_t expires_after(const duration& d) {
        std::size_t n = base::expires_after(d);
        verif::note_tp(base::expiry());
        return n;
    }
    std::size_t expires_at(const time_point& t) {
        std::size_t n = base::expires_at(t);
        verif::note_tp(base::expiry());
        return n;
    }
    // every armed wait passes through here, however the expiry was set
    template <typename WaitToken = default_completion_token_t<executor_type>>
    auto async_wait(WaitToken&& token = default_completion_token_t<executor_type>()) {
        verif::note_tp(base::expiry());
        return base::async_wait(std::forward<WaitToken>(token));
    }
};

}}  // namespace boost::asio

namespace std { namespace chrono {
struct verif_system_clock {
    using duration = std::chrono::nanoseconds;
    using rep = duration::rep;
    using period = duration::period;
    using time_point = std::chrono::time_point<verif_system_clock, duration>;
    static constexpr bool is_steady = false;
    // offset so that "now - 20 s" never underflows at virtual time 0
    static time_point now() noexcept { return time_point(duration(verif::g_now_ns) + std::chrono::hours(24 * 365)); }
};
}}  // namespace std::chrono
