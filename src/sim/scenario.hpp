// Scenario description, the application script that drives the real client, and the virtual-time driver loop.
#pragma once
#include <boost/asio/io_context.hpp>

#include <map>
#include <memory>
#include <string>
#include <vector>

#include "ref/refcodec.hpp"
#include "sim/broker.hpp"
#include "sim/client_iface.hpp"
#include "sim/world.hpp"

namespace sim {

struct Action {
    enum Kind {
        run, publish, subscribe, unsubscribe, cancel, disconnect, destroy, signal,
        broker_publish, net_kill, spurious_ack, hostile_bytes, set_silent, custom, reauth, replace, broker_disconnect, reconfigure, receive,
        s_open, s_read, s_write, s_shutdown, s_cancel, s_close,    // autoconnect_stream level (Scenario::stream_mode)
        s_trigger                                                   // reconnect_op on a probe owner (Scenario::stream_mode == 2)
    } kind = run;
    vt at = 0;                 // virtual time at which it fires ...
    int idle_index = -1;       // ... or, if >= 0, the ordinal of the idle point at which it fires
    int handler_index = -1;    // ... or, if >= 0, it fires between handlers: right after the n-th handler the io_context ran
    bool in_handler = false;   // executed from inside a handler running on the client's executor (asio::post), not from outside
    bool chained = false;      // executed in the same step as the previous script entry, without letting handlers run in between
    int after_script = -1;     // >= 0: executed inline, from inside the completion handler of the operation issued by that script entry
    // publish / broker_publish
    int qos = 0; bool retain = false;
    std::string topic;         // suffix after the tag ("v/<op>/" is prepended) unless raw_topic
    bool raw_topic = false;
    std::string payload; ref::Props props;
    // subscribe / unsubscribe
    std::vector<std::pair<std::string, uint8_t>> subs;
    bool with_slot = false;
    // signal: index of the scripted operation it targets (position among publish/subscribe/unsubscribe/run actions)
    int target = -1; SigType sig = SigType::total;
    // disconnect
    uint8_t rc = 0;
    long long timeout_ms = -1;   // s_read
    // net_kill: error index; spurious_ack: packet to inject
    int ec = 0; ref::Packet pkt; std::string bytes;
    int fit_delta = -1;              // broker_publish: size the PUBLISH to (client's Maximum Packet Size - fit_delta) bytes
    bool expect_immediate = false;   // the reference model says this request fails validation
    int expect_ec = 0;               // ... with this boost::mqtt5::client::error value (0 = not specified)
    std::function<void()> fn;        // custom
    std::string str() const;
};

struct Scenario {
    std::string family; uint64_t seed = 0; uint64_t index = 0;
    ClientCfg ccfg; BrokerCfg bcfg; NetCfg net;
    ClientCfg ccfg2; bool has_ccfg2 = false;   // configuration applied by Action::reconfigure (between two runs)
    std::vector<AttemptPlan> attempts; AttemptPlan default_attempt; std::vector<Fault> faults;
    std::vector<Action> script;
    vt end = 30 * SEC;         // main phase runs until this virtual time
    bool final_cancel = true;  // cancel + destroy + drain check at the end
    bool auto_receive = true;  // keep an async_receive armed
    int stream_mode = 0;       // 1: drive the library's autoconnect_stream directly; 2: drive reconnect_op on a probe owner
    int broker_auth_rounds = 0;
    std::vector<std::pair<std::string, std::string>> host_list;   // configured (host, port) list, for the rotation oracle
    std::string describe() const;
};

struct RunOutcome {
    bool exception = false; std::string exception_what;
    bool hang = false;
    bool harness_failure = false; std::string harness_what;
    bool final_stopped = false;
    uint64_t idle_points = 0, handlers = 0;
    uint64_t handler_boundaries = 0;   // handlers executed in the main phase (positions available for handler_index)
    vt t_end = 0;
    std::vector<vt> timer_instants;    // instants the clock was advanced to because a library timer was due (capped)
};

// everything a monitor can look at
struct Run {
    const Scenario* sc = nullptr;
    World* w = nullptr;
    Broker* broker = nullptr;
    RunOutcome out;
    std::vector<int> script_op;     // script index -> op id (-1 if the action issues no op)
};

// Runs one scenario to completion. The returned objects stay alive until `release()`.
struct Execution {
    std::unique_ptr<World> world;
    std::unique_ptr<Broker> broker;
    Run run;
    void* leaked = nullptr;
};
std::unique_ptr<Execution> execute(const Scenario& sc);

}  // namespace sim
