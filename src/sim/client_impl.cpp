// The only translation unit that instantiates the real client. Everything time related inside the library is
// redirected to virtual time by token interposition (see vtime.hpp); nothing in /repo is edited for that.
#include "preincludes.hpp"   // generated: every non-library header the library includes

#include <boost/asio/bind_cancellation_slot.hpp>
#include <boost/asio/cancellation_signal.hpp>

#include <map>

#include "sim/client_iface.hpp"
#include "sim/stream.hpp"
#include "sim/vtime.hpp"
#include "sim/world.hpp"

// resolve hook (guard BOOST_MQTT5_VERIF): lets the driver know a name resolution is in flight on asio's thread
#define BOOST_MQTT5_VERIF_RESOLVE_BEGIN() (::sim::hook_resolve(+1))
#define BOOST_MQTT5_VERIF_RESOLVE_END() (::sim::hook_resolve(-1))
namespace sim { void hook_resolve(int d); }

#define steady_timer verif_steady_timer
#define system_clock verif_system_clock
#include <boost/mqtt5/mqtt_client.hpp>
#undef steady_timer
#undef system_clock

namespace sim {

void hook_resolve(int d) {
    World* w = World::cur;
    if (!w) return;
    w->resolving += d;
    if (d > 0) {
        if (w->resolving > w->max_resolving) w->max_resolving = w->resolving;
        if (w->connects_in_progress > 0) w->log(Ev::note, -1, -1, 0, "overlap: resolution started while a TCP connect is in progress");
        w->log(Ev::resolve_begin);
    } else w->log(Ev::resolve_end);
}

struct recording_logger {
    void at_resolve(error_code ec, std::string_view host, std::string_view port, const asio::ip::tcp::resolver::results_type& eps) {
        if (World::cur) World::cur->on_log_resolve(ec, std::string(host), std::string(port), (int)eps.size());
    }
    void at_tcp_connect(error_code ec, asio::ip::tcp::endpoint ep) { if (World::cur) World::cur->on_log_tcp(ec, ep); }
    void at_connack(mq::reason_code rc, bool session_present, const mq::connack_props&) { if (World::cur) World::cur->on_log_connack(rc.value(), session_present); }
    void at_disconnect(mq::reason_code rc, const mq::disconnect_props&) { if (World::cur) World::cur->on_log_disconnect(rc.value()); }
};

// enhanced-authentication stand-in: completes every step through a post, optionally failing at a given step
struct sim_authenticator {
    std::string method_; int fail_at; asio::any_io_executor ex; int steps = 0;
    std::string_view method() const { return method_; }
    template <typename Token>
    decltype(auto) async_auth(mq::auth_step_e step, std::string data, Token&& token) {
        using Sig = void(error_code, std::string);
        auto init = [this](auto handler, mq::auth_step_e step, std::string) {
            int k = steps++;
            error_code ec = (fail_at >= 0 && k == fail_at) ? error_code(asio::error::access_denied) : error_code{};
            if (ec && World::cur) World::cur->log(Ev::note, -1, k, 0, "authenticator: step " + std::to_string(k) + " reports a failure");
            std::string out = step == mq::auth_step_e::server_final ? "" : "client-data-" + std::to_string(k);
            asio::post(ex, asio::prepend(std::move(handler), ec, std::move(out)));
        };
        return asio::async_initiate<Token, Sig>(init, token, step, std::move(data));
    }
};

using client_type = mq::mqtt_client<stream, std::monostate, recording_logger>;

namespace {

struct Tok {   // shared by all copies of one completion handler: detects "destroyed without being invoked"
    int op; AppSink* sink; bool invoked = false;
    Tok(int op, AppSink* s) : op(op), sink(s) {}
    ~Tok() { if (!invoked && sink) sink->on_dropped(op); }
};

class ClientImpl : public IClient {
    asio::io_context& ioc_;
    AppSink& sink_;
    std::unique_ptr<client_type> c_, standby_;
    std::map<int, std::unique_ptr<asio::cancellation_signal>> sigs_;

    asio::cancellation_slot slot_for(int op, bool with_slot) {
        if (!with_slot) return asio::cancellation_slot();
        auto& s = sigs_[op];
        s.reset(new asio::cancellation_signal);
        return s->slot();
    }
    template <typename F> auto bind(int op, bool with_slot, F f) { return asio::bind_cancellation_slot(slot_for(op, with_slot), std::move(f)); }

public:
    ClientImpl(asio::io_context& ioc, AppSink& sink) : ioc_(ioc), sink_(sink), c_(new client_type(ioc.get_executor())) {}

    void configure(const ClientCfg& cfg) override {
        c_->brokers(cfg.brokers, cfg.default_port);
        c_->credentials(cfg.client_id, cfg.username, cfg.password);
        if (cfg.set_keep_alive) c_->keep_alive(cfg.keep_alive);
        if (cfg.has_will) c_->will(mq::will(cfg.will_topic, cfg.will_payload, mq::qos_e(cfg.will_qos), mq::retain_e(cfg.will_retain), cfg.will_props));
        c_->connect_properties(cfg.connect_props);
        if (cfg.use_authenticator) c_->authenticator(sim_authenticator{cfg.auth_method, cfg.auth_fail_at_step, ioc_.get_executor()});
    }
    void async_run(int op, bool with_slot) override {
        auto t = std::make_shared<Tok>(op, &sink_);
        c_->async_run(bind(op, with_slot, [t, this](error_code ec) { t->invoked = true; sink_.on_run_done(t->op, ec); }));
    }
    void publish(int op, int qos, std::string topic, std::string payload, bool retain, const mq::publish_props& props, bool with_slot) override {
        auto t = std::make_shared<Tok>(op, &sink_);
        auto r = retain ? mq::retain_e::yes : mq::retain_e::no;
        if (qos == 0)
            c_->async_publish<mq::qos_e::at_most_once>(std::move(topic), std::move(payload), r, props,
                bind(op, with_slot, [t, this](error_code ec) { t->invoked = true; sink_.on_pub0_done(t->op, ec); }));
        else if (qos == 1)
            c_->async_publish<mq::qos_e::at_least_once>(std::move(topic), std::move(payload), r, props,
                bind(op, with_slot, [t, this](error_code ec, mq::reason_code rc, mq::puback_props p) { t->invoked = true; sink_.on_pub_done(t->op, ec, rc.value(), p, mq::pubcomp_props{}, false); }));
        else
            c_->async_publish<mq::qos_e::exactly_once>(std::move(topic), std::move(payload), r, props,
                bind(op, with_slot, [t, this](error_code ec, mq::reason_code rc, mq::pubcomp_props p) { t->invoked = true; sink_.on_pub_done(t->op, ec, rc.value(), mq::puback_props{}, p, true); }));
    }
    void subscribe(int op, const std::vector<mq::subscribe_topic>& topics, const mq::subscribe_props& props, bool with_slot) override {
        auto t = std::make_shared<Tok>(op, &sink_);
        c_->async_subscribe(topics, props, bind(op, with_slot, [t, this](error_code ec, std::vector<mq::reason_code> rcs, mq::suback_props p) {
            t->invoked = true;
            std::vector<uint8_t> v; for (auto& r : rcs) v.push_back(r.value());
            sink_.on_sub_done(t->op, ec, v, p);
        }));
    }
    void unsubscribe(int op, const std::vector<std::string>& topics, const mq::unsubscribe_props& props, bool with_slot) override {
        auto t = std::make_shared<Tok>(op, &sink_);
        c_->async_unsubscribe(topics, props, bind(op, with_slot, [t, this](error_code ec, std::vector<mq::reason_code> rcs, mq::unsuback_props p) {
            t->invoked = true;
            std::vector<uint8_t> v; for (auto& r : rcs) v.push_back(r.value());
            sink_.on_unsub_done(t->op, ec, v, p);
        }));
    }
    void receive(int op, bool with_slot) override {
        auto t = std::make_shared<Tok>(op, &sink_);
        c_->async_receive(bind(op, with_slot, [t, this](error_code ec, std::string topic, std::string payload, mq::publish_props p) {
            t->invoked = true; sink_.on_recv_done(t->op, ec, std::move(topic), std::move(payload), p);
        }));
    }
    void disconnect(int op, uint8_t rc, const mq::disconnect_props& props, bool with_slot) override {
        auto t = std::make_shared<Tok>(op, &sink_);
        c_->async_disconnect(mq::disconnect_rc_e(rc), props, bind(op, with_slot, [t, this](error_code ec) { t->invoked = true; sink_.on_disconnect_done(t->op, ec); }));
    }
    void cancel() override { if (c_) c_->cancel(); }
    void re_authenticate() override { if (c_) c_->re_authenticate(); }
    void destroy() override { c_.reset(); standby_.reset(); }
    void move_assign_fresh() override {
        if (!c_) return;
        // a named, longer-lived source object: what it holds after the assignment is not destroyed here
        standby_.reset(new client_type(ioc_.get_executor()));
        *c_ = std::move(*standby_);
    }
    bool alive() const override { return bool(c_); }
    void emit_signal(int op, SigType type) override {
        auto it = sigs_.find(op);
        if (it == sigs_.end() || !it->second) return;
        it->second->emit(asio::cancellation_type_t(int(type)));
    }
    mq::connack_props connack_props() const override { return c_ ? c_->connack_properties() : mq::connack_props{}; }
};

}  // namespace

std::unique_ptr<IClient> make_client(asio::io_context& ioc, AppSink& sink) { return std::unique_ptr<IClient>(new ClientImpl(ioc, sink)); }

namespace {

class ReconnImpl : public IReconn {
    using ctx_type = mq::detail::stream_context<stream, std::monostate>;
    using as_type = mq::detail::autoconnect_stream<stream, ctx_type, recording_logger>;
    asio::io_context& ioc_;
    AppSink& sink_;
    ctx_type ctx_;
    mq::detail::log_invoke<recording_logger> log_;
    std::unique_ptr<as_type> as_;
    std::map<int, std::unique_ptr<asio::cancellation_signal>> sigs_;
    std::map<int, std::shared_ptr<std::string>> bufs_;

    asio::cancellation_slot slot_for(int op, bool with_slot) {
        if (!with_slot) return asio::cancellation_slot();
        auto& s = sigs_[op];
        s.reset(new asio::cancellation_signal);
        return s->slot();
    }
public:
    ReconnImpl(asio::io_context& ioc, AppSink& sink) : ioc_(ioc), sink_(sink), ctx_(std::monostate{}), as_(new as_type(ioc.get_executor(), ctx_, log_)) {}
    void configure(const std::string& brokers, uint16_t default_port, const ClientCfg& cfg) override {
        as_->brokers(brokers, default_port);
        ctx_.credentials(cfg.client_id, cfg.username, cfg.password);
        ctx_.mqtt_context().keep_alive = cfg.keep_alive;
    }
    void open() override { as_->open(); }
    void read(int op, long long timeout_ms, bool with_slot) override {
        auto t = std::make_shared<Tok>(op, &sink_);
        auto buf = std::make_shared<std::string>(4096, char(0));
        bufs_[op] = buf;
        auto d = timeout_ms < 0 ? mq::detail::duration((std::numeric_limits<mq::detail::duration::rep>::max)()) : mq::detail::duration(std::chrono::milliseconds(timeout_ms));
        as_->async_read_some(asio::buffer(buf->data(), buf->size()), d,
            asio::bind_cancellation_slot(slot_for(op, with_slot), [t, buf, this](error_code ec, std::size_t n) { t->invoked = true; sink_.on_io_done(t->op, ec, n); }));
    }
    void write(int op, std::string bytes, bool with_slot) override {
        auto t = std::make_shared<Tok>(op, &sink_);
        auto buf = std::make_shared<std::string>(std::move(bytes));
        bufs_[op] = buf;
        std::vector<asio::const_buffer> v{asio::buffer(*buf)};
        as_->async_write(v, asio::bind_cancellation_slot(slot_for(op, with_slot), [t, buf, this](error_code ec, std::size_t n) { t->invoked = true; sink_.on_io_done(t->op, ec, n); }));
    }
    void shutdown(int op, bool with_slot) override {
        auto t = std::make_shared<Tok>(op, &sink_);
        as_->async_shutdown(asio::bind_cancellation_slot(slot_for(op, with_slot), [t, this](error_code ec) { t->invoked = true; sink_.on_io_done(t->op, ec, 0); }));
    }
    void emit_signal(int op, SigType type) override {
        auto it = sigs_.find(op);
        if (it == sigs_.end() || !it->second) return;
        it->second->emit(asio::cancellation_type_t(int(type)));
    }
    void trigger(int, bool) override {}
    void cancel() override { as_->cancel(); }
    void close() override { as_->close(); }
    bool is_open() const override { return as_->is_open(); }
};

}  // namespace

std::unique_ptr<IReconn> make_reconn(asio::io_context& ioc, AppSink& sink) { return std::unique_ptr<IReconn>(new ReconnImpl(ioc, sink)); }

namespace {

// What reconnect_op needs from its owner, with public members (autoconnect_stream keeps them private and befriends the op).
struct probe_owner {
    using stream_type = stream;
    using stream_ptr = std::shared_ptr<stream_type>;
    using stream_context_type = mq::detail::stream_context<stream, std::monostate>;
    using executor_type = stream::executor_type;
    using logger_type = recording_logger;

    executor_type _stream_executor;
    mq::detail::async_mutex _conn_mtx;
    asio::verif_steady_timer _connect_timer;
    mq::detail::endpoints<logger_type> _endpoints;
    stream_ptr _stream_ptr;
    stream_context_type& _stream_context;
    mq::detail::log_invoke<logger_type>& _log;

    probe_owner(const executor_type& ex, stream_context_type& ctx, mq::detail::log_invoke<logger_type>& log) :
        _stream_executor(ex), _conn_mtx(ex), _connect_timer(ex), _endpoints(ex, _connect_timer, log), _stream_context(ctx), _log(log) {
        replace_next_layer(construct_next_layer());
    }
    executor_type get_executor() const noexcept { return _stream_executor; }
    mq::detail::log_invoke<logger_type>& log() { return _log; }
    bool is_open() const noexcept { return _stream_ptr->is_open(); }
    void open() { open_lowest_layer(_stream_ptr, asio::ip::tcp::v4()); }
    void close() { error_code ec; _stream_ptr->close(ec); }
    static void open_lowest_layer(const stream_ptr& s, asio::ip::tcp p) { error_code ec; s->open(p, ec); }
    stream_ptr construct_next_layer() const { return std::make_shared<stream_type>(_stream_executor); }
    stream_ptr construct_and_open_next_layer(asio::ip::tcp p) const { auto s = construct_next_layer(); open_lowest_layer(s, p); return s; }
    void replace_next_layer(stream_ptr s) { if (_stream_ptr) close(); std::exchange(_stream_ptr, std::move(s)); }
};

class ReconnectProbeImpl : public IReconn {
    asio::io_context& ioc_;
    AppSink& sink_;
    probe_owner::stream_context_type ctx_;
    mq::detail::log_invoke<recording_logger> log_;
    std::unique_ptr<probe_owner> ow_;
    std::map<int, std::unique_ptr<asio::cancellation_signal>> sigs_;
public:
    ReconnectProbeImpl(asio::io_context& ioc, AppSink& sink) : ioc_(ioc), sink_(sink), ctx_(std::monostate{}), ow_(new probe_owner(ioc.get_executor(), ctx_, log_)) {}
    void configure(const std::string& brokers, uint16_t default_port, const ClientCfg& cfg) override {
        ow_->_endpoints.brokers(brokers, default_port);
        ctx_.credentials(cfg.client_id, cfg.username, cfg.password);
    }
    void open() override { ow_->open(); }
    void read(int, long long, bool) override {}
    void write(int, std::string, bool) override {}
    void shutdown(int, bool) override {}
    void trigger(int op, bool with_slot) override {
        auto t = std::make_shared<Tok>(op, &sink_);
        asio::cancellation_slot slot;
        if (with_slot) { auto& s = sigs_[op]; s.reset(new asio::cancellation_signal); slot = s->slot(); }
        auto h = asio::bind_cancellation_slot(slot, [t, this](error_code ec) { t->invoked = true; sink_.on_io_done(t->op, ec, 0); });
        mq::detail::reconnect_op<probe_owner>{*ow_, std::move(h)}.perform(ow_->_stream_ptr);
    }
    void emit_signal(int op, SigType type) override {
        auto it = sigs_.find(op);
        if (it == sigs_.end() || !it->second) return;
        it->second->emit(asio::cancellation_type_t(int(type)));
    }
    void cancel() override { ow_->_conn_mtx.cancel(); ow_->_connect_timer.cancel(); }
    void close() override { ow_->close(); }
    bool is_open() const override { return ow_->is_open(); }
};

}  // namespace

std::unique_ptr<IReconn> make_reconnect_probe(asio::io_context& ioc, AppSink& sink) { return std::unique_ptr<IReconn>(new ReconnectProbeImpl(ioc, sink)); }

}  // namespace sim
