// The only translation unit that instantiates the real client. Everything time related inside the library is
// redirected to virtual time by token interposition (see vtime.hpp); nothing in /repo is edited for that.
#include "preincludes.hpp"   // generated: every non-library header the library includes

#include <boost/asio/bind_cancellation_slot.hpp>
#include <boost/asio/cancellation_signal.hpp>

#include <map>

#include "sim/client_iface.hpp"
#include "sim/stream.hpp"
#include "sim/vtime.hpp"
#include "sim/world.hpp"

// resolve hook (guard BOOST_MQTT5_VERIF): lets the driver know a name resolution is in flight on asio's thread
#define BOOST_MQTT5_VERIF_RESOLVE_BEGIN() (::sim::hook_resolve(+1))
#define BOOST_MQTT5_VERIF_RESOLVE_END() (::sim::hook_resolve(-1))
namespace sim { void hook_resolve(int d); }

#define steady_timer verif_steady_timer
#define system_clock verif_system_clock
#include <boost/mqtt5/mqtt_client.hpp>
#undef steady_timer
#undef system_clock

namespace sim {

void hook_resolve(int d) {
    World* w = World::cur;
    if (!w) return;
    w->resolving += d;
    if (d > 0) {
        if (w->resolving > w->max_resolving) w->max_resolving = w->resolving;
        if (w->connects_in_progress > 0) w->log(Ev::note, -1, -1, 0, "overlap: resolution started while a TCP connect is in progress");
        w->log(Ev::resolve_begin);
    } else w->log(Ev::resolve_end);
}

struct recording_logger {
    void at_resolve(error_code ec, std::string_view host, std::string_view port, const asio::ip::tcp::resolver::results_type& eps) {
        if (World::cur) World::cur->on_log_resolve(ec, std::string(host), std::string(port), (int)eps.size());
    }
    void at_tcp_connect(error_code ec, asio::ip::tcp::endpoint ep) { if (World::cur) World::cur->on_log_tcp(ec, ep); }
    void at_connack(mq::reason_code rc, bool session_present, const mq::connack_props&) { if (World::cur) World::cur->on_log_connack(rc.value(), session_present); }
    void at_disconnect(mq::reason_code rc, const mq::disconnect_props&) { if (World::cur) World::cur->on_log_disconnect(rc.value()); }
};

// enhanced-authentication stand-in: completes every step through a post, optionally failing at a given step
struct sim_authenticator {
    std::string method_; int fail_at; asio::any_io_executor ex; int steps = 0;
    std::string_view method() const { return method_; }
    template <typename Token>
    decltype(auto) async_auth(mq::auth_step_e step, std::string data, Token&& token) {
        using Sig = void(error_code, std::string);
        auto init = [this](auto handler, mq::auth_step_e step, std::string) {
            int k = steps++;
            error_code ec = (fail_at >= 0 && k == fail_at) ? error_code(asio::error::access_denied) : error_code{};
            std::string out = step == mq::auth_step_e::server_final ? "" : "client-data-" + std::to_string(k);
            asio::post(ex, asio::prepend(std::move(handler), ec, std::move(out)));
        };
        return asio::async_initiate<Token, Sig>(init, token, step, std::move(data));
    }
};

using client_type = mq::mqtt_client<stream, std::monostate, recording_logger>;

namespace {

struct Tok {   // shared by all copies of one completion handler: detects "destroyed without being invoked"
    int op; AppSink* sink; bool invoked = false;
    Tok(int op, AppSink* s) : op(op), sink(s) {}
    ~Tok() { if (!invoked && sink) sink->on_dropped(op); }
};

class ClientImpl : public IClient {
    asio::io_context& ioc_;
    AppSink& sink_;
    std::unique_ptr<client_type> c_;
    std::map<int, std::unique_ptr<asio::cancellation_signal>> sigs_;

    asio::cancellation_slot slot_for(int op, bool with_slot) {
        if (!with_slot) return asio::cancellation_slot();
        auto& s = sigs_[op];
        s.reset(new asio::cancellation_signal);
        return s->slot();
    }
    template <typename F> auto bind(int op, bool with_slot, F f) { return asio::bind_cancellation_slot(slot_for(op, with_slot), std::move(f)); }

public:
    ClientImpl(asio::io_context& ioc, AppSink& sink) : ioc_(ioc), sink_(sink), c_(new client_type(ioc.get_executor())) {}

    void configure(const ClientCfg& cfg) override {
        c_->brokers(cfg.brokers, cfg.default_port);
        c_->credentials(cfg.client_id, cfg.username, cfg.password);
        if (cfg.set_keep_alive) c_->keep_alive(cfg.keep_alive);
        if (cfg.has_will) c_->will(mq::will(cfg.will_topic, cfg.will_payload, mq::qos_e(cfg.will_qos), mq::retain_e(cfg.will_retain), cfg.will_props));
        c_->connect_properties(cfg.connect_props);
        if (cfg.use_authenticator) c_->authenticator(sim_authenticator{cfg.auth_method, cfg.auth_fail_at_step, ioc_.get_executor()});
    }
    void async_run(int op, bool with_slot) override {
        auto t = std::make_shared<Tok>(op, &sink_);
        c_->async_run(bind(op, with_slot, [t, this](error_code ec) { t->invoked = true; sink_.on_run_done(t->op, ec); }));
    }
    void publish(int op, int qos, std::string topic, std::string payload, bool retain, const mq::publish_props& props, bool with_slot) override {
        auto t = std::make_shared<Tok>(op, &sink_);
        auto r = retain ? mq::retain_e::yes : mq::retain_e::no;
        if (qos == 0)
            c_->async_publish<mq::qos_e::at_most_once>(std::move(topic), std::move(payload), r, props,
                bind(op, with_slot, [t, this](error_code ec) { t->invoked = true; sink_.on_pub0_done(t->op, ec); }));
        else if (qos == 1)
            c_->async_publish<mq::qos_e::at_least_once>(std::move(topic), std::move(payload), r, props,
                bind(op, with_slot, [t, this](error_code ec, mq::reason_code rc, mq::puback_props p) { t->invoked = true; sink_.on_pub_done(t->op, ec, rc.value(), p, mq::pubcomp_props{}, false); }));
        else
            c_->async_publish<mq::qos_e::exactly_once>(std::move(topic), std::move(payload), r, props,
                bind(op, with_slot, [t, this](error_code ec, mq::reason_code rc, mq::pubcomp_props p) { t->invoked = true; sink_.on_pub_done(t->op, ec, rc.value(), mq::puback_props{}, p, true); }));
    }
    void subscribe(int op, const std::vector<mq::subscribe_topic>& topics, const mq::subscribe_props& props, bool with_slot) override {
        auto t = std::make_shared<Tok>(op, &sink_);
        c_->async_subscribe(topics, props, bind(op, with_slot, [t, this](error_code ec, std::vector<mq::reason_code> rcs, mq::suback_props p) {
            t->invoked = true;
            std::vector<uint8_t> v; for (auto& r : rcs) v.push_back(r.value());
            sink_.on_sub_done(t->op, ec, v, p);
        }));
    }
    void unsubscribe(int op, const std::vector<std::string>& topics, const mq::unsubscribe_props& props, bool with_slot) override {
        auto t = std::make_shared<Tok>(op, &sink_);
        c_->async_unsubscribe(topics, props, bind(op, with_slot, [t, this](error_code ec, std::vector<mq::reason_code> rcs, mq::unsuback_props p) {
            t->invoked = true;
            std::vector<uint8_t> v; for (auto& r : rcs) v.push_back(r.value());
            sink_.on_unsub_done(t->op, ec, v, p);
        }));
    }
    void receive(int op, bool with_slot) override {
        auto t = std::make_shared<Tok>(op, &sink_);
        c_->async_receive(bind(op, with_slot, [t, this](error_code ec, std::string topic, std::string payload, mq::publish_props p) {
            t->invoked = true; sink_.on_recv_done(t->op, ec, std::move(topic), std::move(payload), p);
        }));
    }
    void disconnect(int op, uint8_t rc, const mq::disconnect_props& props, bool with_slot) override {
        auto t = std::make_shared<Tok>(op, &sink_);
        c_->async_disconnect(mq::disconnect_rc_e(rc), props, bind(op, with_slot, [t, this](error_code ec) { t->invoked = true; sink_.on_disconnect_done(t->op, ec); }));
    }
    void cancel() override { if (c_) c_->cancel(); }
    void destroy() override { c_.reset(); }
    bool alive() const override { return bool(c_); }
    void emit_signal(int op, SigType type) override {
        auto it = sigs_.find(op);
        if (it == sigs_.end() || !it->second) return;
        it->second->emit(asio::cancellation_type_t(int(type)));
    }
    mq::connack_props connack_props() const override { return c_ ? c_->connack_properties() : mq::connack_props{}; }
};

}  // namespace

std::unique_ptr<IClient> make_client(asio::io_context& ioc, AppSink& sink) { return std::unique_ptr<IClient>(new ClientImpl(ioc, sink)); }

}  // namespace sim
