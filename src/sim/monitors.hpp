// Property monitors: pure functions over the recorded history of one scenario.
#pragma once
#include <string>
#include <vector>

#include "common/vutil.hpp"
#include "sim/scenario.hpp"

namespace sim {

struct Finding { std::string prop, key, what; };

struct Verdicts {
    std::vector<Finding> findings;
    void add(const std::string& prop, const std::string& key, const std::string& what) {
        for (auto& f : findings) if (f.prop == prop && f.key == key) return;
        findings.push_back({prop, key, what});
    }
};

// relevance counters and distinct-shape hashes are accumulated into res
void monitor_all(const Run& run, Verdicts& v, vu::Result& res);
// only the packet-identifier / quota and completion monitors (for very large scenarios)
void monitor_ids_only(const Run& run, Verdicts& v, vu::Result& res);
// engine-level observations that are alarms for every property that uses the simulator (exception, hang, assertion)
void monitor_engine(const Run& run, Verdicts& v, vu::Result& res);
uint64_t trace_shape(const Run& run);

}  // namespace sim
