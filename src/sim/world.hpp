// Simulated world: virtual-time event queue, connections (byte pipes with faults, chunking, latency),
// the event/history log the monitors read, and the type-erased entry points used by sim::stream.
#pragma once
#include <boost/asio/any_completion_handler.hpp>
#include <boost/asio/any_io_executor.hpp>
#include <boost/asio/buffer.hpp>
#include <boost/asio/ip/tcp.hpp>
#include <boost/system/error_code.hpp>

#include <cstdint>
#include <deque>
#include <functional>
#include <map>
#include <memory>
#include <optional>
#include <queue>
#include <string>
#include <vector>

#include "common/vutil.hpp"
#include "ref/refcodec.hpp"

namespace sim {

namespace asio = boost::asio;
using boost::system::error_code;
using vt = int64_t;   // virtual nanoseconds
constexpr vt US = 1000, MS = 1000 * US, SEC = 1000 * MS;

using IoHandler = asio::any_completion_handler<void(error_code, std::size_t)>;
using EcHandler = asio::any_completion_handler<void(error_code)>;

std::string ec_name(const error_code& ec);

// ------------------------------------------------------------------------------------------ history records
struct CPacket {            // client -> broker packet, parsed when the write was initiated
    int id = -1, write = -1, conn = -1;
    size_t offset = 0;      // offset in the connection's c2b stream
    std::string raw;
    ref::Decoded dec;
    uint64_t seq = 0; vt t = 0;
    bool reached_broker = false; uint64_t rx_seq = 0; vt rx_t = -1;
    int op = -1;            // application operation it belongs to (by tag), -1 unknown
};

struct WireWrite {          // one library write = one transport call
    int id = -1, conn = -1;
    uint64_t seq_begin = 0, seq_end = 0; vt t_begin = 0, t_end = -1;
    bool done = false; error_code result; size_t reported_bytes = 0;
    size_t bytes = 0, delivered = 0, offset = 0;
    std::vector<int> pkts;
    bool during_handshake = false;
    bool aborted_by_close = false;
};

enum class BKind { normal, retransmit, spurious, hostile };
struct BPacket {            // broker -> client packet
    int id = -1, conn = -1;
    uint64_t seq = 0; vt t = 0;
    ref::Packet pkt; std::string raw; bool wellformed = true;
    size_t end_offset = 0;  // b2c stream offset just after this packet
    int for_cpkt = -1;      // client packet it answers
    int out_msg = -1;       // broker-originated message it carries / belongs to
    BKind kind = BKind::normal;
    uint64_t delivered_seq = 0; vt delivered_t = -1;   // when the client has read its last byte
};

struct Caps {               // what the CONNACK of a connection announced
    std::optional<uint16_t> receive_maximum, topic_alias_maximum, server_keep_alive;
    std::optional<uint8_t> maximum_qos, retain_available, wildcard_available, sub_id_available, shared_available;
    std::optional<uint32_t> maximum_packet_size;
};

struct ConnRec {
    int id = -1, attempt = -1;
    std::string addr; uint16_t port = 0;
    uint64_t seq_begin = 0, seq_connected = 0, seq_established = 0, seq_closed = 0;
    vt t_begin = 0, t_connected = -1, t_established = -1, t_closed = -1;
    bool tcp_ok = false; error_code connect_result;
    bool connack_sent = false; uint8_t connack_rc = 0; bool session_present = false; int connack_bpkt = -1;
    bool established = false;          // the client's logger saw CONNACK(success) on this connection and the client then went on to use it
    bool connack_ok_logged = false;    // ... saw CONNACK(success): the handshake can still fail at the authenticator's final step
    std::string closed_by, close_cause;   // "client" / "network" / "broker"
    bool faulted = false; vt t_fault = -1; uint64_t seq_fault = 0;
    size_t c2b_bytes = 0, c2b_delivered = 0, b2c_bytes = 0, b2c_read = 0;
    Caps caps;
    std::string client_id;
    bool swapped_in = false;           // (heuristic) the library wrote non-handshake data on it
};

enum class OpKind { run, pub0, pub1, pub2, sub, unsub, recv, disconnect, s_read, s_write, s_shutdown };
const char* op_kind_name(OpKind k);

struct OpRec {
    int id = -1; OpKind kind = OpKind::run;
    uint64_t seq_init = 0; vt t_init = 0;
    int incarnation = 0;               // which async_run generation it was issued in
    // arguments
    std::string topic, payload; bool retain = false; ref::Props props;
    std::vector<std::pair<std::string, uint8_t>> subs; std::vector<std::string> unsubs;
    uint8_t disc_rc = 0;
    std::string tag;
    // completion(s)
    int completions = 0; bool dropped = false; uint64_t seq_dropped = 0;
    uint64_t seq_done = 0; vt t_done = -1; error_code ec; int depth_at_done = 0;
    std::vector<uint8_t> rcs; ref::Props done_props;
    // recv only
    std::string r_topic, r_payload; ref::Props r_props;
    // cancellation
    bool signalled = false; uint64_t seq_signal = 0; int signal_type = 0;
    bool immediate_expected = false;   // failed validation at initiation (model's opinion, set by scenario)
    int expect_ec = 0;                 // expected client::error value for a refused request (0 = any)
    bool after_terminal = false;       // initiated after cancel()/async_disconnect of its incarnation
};

struct Ev {                 // total order of everything
    enum Kind : uint8_t {
        api_init, api_done, api_dropped, signal, terminal, resolve_begin, resolve_end, connect_begin, connect_end,
        conn_close, write_begin, write_end, read_begin, read_end, shutdown_begin, shutdown_end, brk_rx, brk_tx, fault,
        log_resolve, log_tcp, log_connack, log_disconnect, assert_fired, exception, hang, idle, note, stopped, not_stopped
    } kind;
    uint64_t seq; vt t; int a = -1, b = -1; int64_t c = 0; std::string s;
};
const char* ev_name(Ev::Kind k);

struct History {
    std::vector<Ev> ev;
    std::vector<CPacket> cpkts;
    std::vector<WireWrite> writes;
    std::vector<BPacket> bpkts;
    std::vector<ConnRec> conns;
    std::vector<OpRec> ops;
    uint64_t seq = 0;
    std::string dump(size_t max_events = 600) const;
};

// ------------------------------------------------------------------------------------------ plans
struct AttemptPlan {        // outcome of one TCP connection attempt / MQTT handshake
    enum Tcp { tcp_ok, tcp_refused, tcp_hang, tcp_unreachable } tcp = tcp_ok;
    vt tcp_delay = 200 * US;
    enum Hs { hs_normal, hs_silent, hs_refuse_rc, hs_garbage, hs_close, hs_custom } hs = hs_normal;
    uint8_t refuse_rc = 0x88;
    std::string custom_bytes;           // hs_custom: bytes sent instead of CONNACK
    int session_present = -1;           // -1 = broker decides from its session table
};

struct Fault {
    // write_stall: from the batch containing offset `at` on, writes stay pending (peer stopped reading, send buffer full),
    // nothing of them is delivered and the broker sends nothing more; only closing the stream ends them
    // stall_b2c: after exactly `at` broker->client bytes nothing more arrives (possibly in the middle of a packet); the connection stays up
    enum Kind { reset_c2b, reset_b2c, write_fail_delivered, eof_b2c, write_stall, stall_b2c } kind = reset_c2b;
    int conn_ordinal = 0;   // n-th established TCP connection (0-based)
    size_t at = 0;          // byte offset in that direction (reset when exactly `at` bytes have crossed)
    int ec = 0;             // index into the reconnectable error set
    bool fired = false;
};

enum class Chunking { whole, bytewise, random };

struct NetCfg {
    vt latency_min = 100 * US, latency_max = 400 * US;
    vt write_done_delay_max = 0;        // > 0: write completions are delayed (full send buffer)
    vt write_done_delay_min = 0;
    Chunking chunking = Chunking::whole;
    bool shutdown_hangs = false;
    vt shutdown_delay = 50 * US;
};

class Broker;
struct StreamState;

// ------------------------------------------------------------------------------------------ connections
struct Conn {
    int id = -1;
    enum St { connecting, up, dead, closed } st = connecting;
    asio::ip::tcp::endpoint ep;
    AttemptPlan plan;
    int ordinal = -1;                 // among TCP-connected connections
    StreamState* owner = nullptr;     // client-side stream (null once the stream object is gone)
    // client side pending operations
    struct PIo { IoHandler h; asio::any_io_executor work; std::vector<asio::mutable_buffer> bufs; int write_id = -1; };
    struct PEc { EcHandler h; asio::any_io_executor work; };
    std::optional<PEc> p_connect, p_shutdown;
    std::optional<PIo> p_read, p_write;
    std::string rxbuf;                // arrived, not yet read by the client
    error_code rx_error;              // reported once rxbuf is drained
    error_code tx_error;              // reported to writes on a dead connection
    size_t b2c_sent = 0, b2c_arrived = 0, b2c_read = 0, c2b_sent = 0;
    vt b2c_last_arrival = 0, c2b_last_arrival = 0;
    bool broker_closed = false;       // broker will send nothing more
    std::string c2b_pending;          // broker side: unparsed bytes
    bool stalled = false;             // broker ignores input on this connection (silent)
    bool write_stalled = false;       // fault write_stall fired: writes pend until the stream is closed
    std::shared_ptr<void> broker_state;
    std::deque<int> undelivered_bpkts;            // broker packets not yet completely read by the client, in stream order
    std::map<size_t, int> cpkt_at;                // c2b stream offset -> client packet id
};
using ConnPtr = std::shared_ptr<Conn>;

struct StreamState {                  // lives inside sim::stream
    int id = -1;
    asio::any_io_executor ex;
    bool open = false;
    bool connected = false;           // remote_endpoint() works
    asio::ip::tcp::endpoint remote;
    ConnPtr conn;
};

// ------------------------------------------------------------------------------------------ world
class World {
public:
    explicit World(uint64_t seed);
    ~World();

    static World* cur;                // the world of the running scenario (one per process at a time)

    vu::Rng rng;
    vu::Rng chunk_rng;                   // read-size draws only: runs that differ in chunking alone see the same broker/network choices
    History h;
    NetCfg net;
    std::vector<AttemptPlan> attempts;   // indexed by attempt number; beyond the end: default plan
    AttemptPlan default_attempt;
    std::vector<Fault> faults;
    Broker* broker = nullptr;
    int resolving = 0;                   // hook counter
    int max_resolving = 0, connects_in_progress = 0, max_connects_in_progress = 0;
    int attempts_made = 0, tcp_connections = 0;
    bool terminal_called = false;
    int assert_count = 0;

    // ---- time and events
    vt now() const;
    void at(vt when, std::function<void()> fn);            // schedule a world event
    void after(vt delay, std::function<void()> fn) { at(now() + delay, std::move(fn)); }
    bool has_events() const { return !evq_.empty(); }
    vt next_event_time() const { return evq_.top().when; }
    void fire_next();                                       // pops and runs the earliest event
    size_t pending_events() const { return evq_.size(); }

    // ---- log
    Ev& log(Ev::Kind k, int a = -1, int b = -1, int64_t c = 0, std::string s = {});
    uint64_t next_seq() { return ++h.seq; }

    // ---- stream entry points (called by sim::stream)
    void s_open(StreamState& s);
    void s_close(StreamState& s, const char* why);
    void s_destroy(StreamState& s);
    void s_connect(StreamState& s, const asio::ip::tcp::endpoint& ep, EcHandler h);
    void s_read(StreamState& s, std::vector<asio::mutable_buffer> bufs, IoHandler h);
    void s_write(StreamState& s, std::string bytes, IoHandler h);
    void s_shutdown(StreamState& s, EcHandler h);

    // ---- broker side
    void broker_send(const ConnPtr& c, const std::string& bytes, int bpkt_first, int bpkt_count);  // appends to the b2c stream
    void broker_close(const ConnPtr& c, bool reset);       // broker ends the connection (after pending output)
    void kill(const ConnPtr& c, error_code read_ec, error_code write_ec, const char* cause);   // network failure now

    // ---- logger callbacks (called by the recording logger)
    void on_log_resolve(error_code ec, std::string host, std::string port, int n);
    void on_log_tcp(error_code ec, const asio::ip::tcp::endpoint& ep);
    void on_log_connack(uint8_t rc, bool session_present);
    void establish_if_due(const ConnPtr& c);
    void on_log_disconnect(uint8_t rc);

    ConnRec& crec(const ConnPtr& c) { return h.conns[c->id]; }
    ConnPtr conn_by_id(int id) { return id >= 0 && id < (int)conns_.size() ? conns_[id] : nullptr; }
    int live_stream_ops() const;       // pending client-side operations held by the world
    error_code reconnectable_error(int i) const;

private:
    struct QEv { vt when; uint64_t order; std::function<void()> fn; bool operator<(const QEv& o) const { return when != o.when ? when > o.when : order > o.order; } };
    std::priority_queue<QEv> evq_;
    uint64_t order_ = 0;
    std::vector<ConnPtr> conns_;
    int next_stream_id_ = 0;
    int last_connack_conn_ = -1;

    void complete_io(std::optional<Conn::PIo>& op, error_code ec, size_t n);
    void complete_ec(std::optional<Conn::PEc>& op, error_code ec);
    void try_complete_read(const ConnPtr& c);
    void deliver_c2b(const ConnPtr& c, std::string bytes, int write_id);
    void arrive_b2c(const ConnPtr& c, std::string bytes);
    Fault* fault_for(const ConnPtr& c, Fault::Kind k);
    void mark_delivered(const ConnPtr& c);
    void abort_ops(const ConnPtr& c, const char* why);
    void notify_broker_lost(const ConnPtr& c, bool by_client);
    friend class Broker;
};

}  // namespace sim
