#include "sim/world.hpp"

#include <boost/asio/associated_cancellation_slot.hpp>
#include <boost/asio/associated_executor.hpp>
#include <boost/asio/error.hpp>
#include <boost/asio/dispatch.hpp>
#include <boost/asio/post.hpp>
#include <boost/asio/prefer.hpp>

#include <algorithm>
#include <sstream>

#include "sim/broker.hpp"

namespace verif { extern int64_t g_now_ns; }

namespace sim {

World* World::cur = nullptr;

std::string ec_name(const error_code& ec) {
    if (!ec) return "ok";
    namespace ae = asio::error;
    if (ec == ae::operation_aborted) return "operation_aborted";
    if (ec == ae::try_again) return "try_again";
    if (ec == ae::no_recovery) return "no_recovery";
    if (ec == ae::connection_reset) return "connection_reset";
    if (ec == ae::connection_refused) return "connection_refused";
    if (ec == ae::connection_aborted) return "connection_aborted";
    if (ec == ae::broken_pipe) return "broken_pipe";
    if (ec == ae::eof) return "eof";
    if (ec == ae::not_connected) return "not_connected";
    if (ec == ae::timed_out) return "timed_out";
    if (ec == ae::host_unreachable) return "host_unreachable";
    if (ec == ae::host_not_found) return "host_not_found";
    if (ec == ae::bad_descriptor) return "bad_descriptor";
    return std::string(ec.category().name()) + ":" + std::to_string(ec.value());
}

const char* op_kind_name(OpKind k) {
    static const char* n[] = {"run", "publish_qos0", "publish_qos1", "publish_qos2", "subscribe", "unsubscribe", "receive", "disconnect", "stream_read", "stream_write", "stream_shutdown"};
    return n[int(k)];
}

const char* ev_name(Ev::Kind k) {
    static const char* n[] = {"api_init", "api_done", "api_dropped", "signal", "terminal", "resolve_begin", "resolve_end", "connect_begin",
                              "connect_end", "conn_close", "write_begin", "write_end", "read_begin", "read_end", "shutdown_begin", "shutdown_end",
                              "brk_rx", "brk_tx", "fault", "log_resolve", "log_tcp", "log_connack", "log_disconnect", "assert_fired", "exception",
                              "hang", "idle", "note", "stopped", "not_stopped"};
    return n[int(k)];
}

std::string History::dump(size_t max_events) const {
    std::ostringstream o;
    size_t start = ev.size() > max_events ? ev.size() - max_events : 0;
    if (start) o << "... (" << start << " earlier events omitted)\n";
    for (size_t i = start; i < ev.size(); ++i) {
        const Ev& e = ev[i];
        char tb[48]; snprintf(tb, sizeof tb, "%6llu %12.6f ", (unsigned long long)e.seq, e.t / 1e9);
        o << tb << ev_name(e.kind);
        if (e.a >= 0) o << " a=" << e.a;
        if (e.b >= 0) o << " b=" << e.b;
        if (e.c) o << " c=" << e.c;
        if (!e.s.empty()) o << " " << e.s;
        o << "\n";
    }
    return o.str();
}

World::World(uint64_t seed) : rng(seed), chunk_rng(seed ^ 0x5bd1e995u) { cur = this; verif::g_now_ns = 0; }
World::~World() { if (cur == this) cur = nullptr; }

vt World::now() const { return verif::g_now_ns; }

void World::at(vt when, std::function<void()> fn) {
    if (when < now()) when = now();
    evq_.push(QEv{when, order_++, std::move(fn)});
}

void World::fire_next() {
    QEv e = evq_.top();
    evq_.pop();
    if (e.when > verif::g_now_ns) verif::g_now_ns = e.when;
    e.fn();
}

Ev& World::log(Ev::Kind k, int a, int b, int64_t c, std::string s) {
    Ev e; e.kind = k; e.seq = next_seq(); e.t = now(); e.a = a; e.b = b; e.c = c; e.s = std::move(s);
    h.ev.push_back(std::move(e));
    static const bool trace = getenv("VERIF_TRACE") != nullptr;
    if (trace) { const Ev& x = h.ev.back(); fprintf(stderr, "%6llu %12.6f %s a=%d b=%d c=%lld %s\n", (unsigned long long)x.seq, x.t / 1e9, ev_name(x.kind), x.a, x.b, (long long)x.c, x.s.c_str()); }
    return h.ev.back();
}

error_code World::reconnectable_error(int i) const {
    namespace ae = asio::error;
    static const error_code set[] = {ae::connection_reset, ae::eof, ae::broken_pipe, ae::connection_aborted, ae::not_connected, ae::timed_out};
    return set[unsigned(i) % 6];
}

int World::live_stream_ops() const {
    int n = 0;
    for (auto& c : conns_) n += (c->p_connect ? 1 : 0) + (c->p_read ? 1 : 0) + (c->p_write ? 1 : 0) + (c->p_shutdown ? 1 : 0);
    return n;
}

// completions are always posted, never invoked from inside the initiating function or a world event
template <typename H, typename... A>
static void post_handler(const asio::any_io_executor& dflt, H h, A... a) {
    auto slot = asio::get_associated_cancellation_slot(h);
    auto ex = asio::get_associated_executor(h, dflt);
    // like a real I/O object: the completion is queued on the I/O executor and runs through the handler's executor
    asio::post(dflt, [ex, h = std::move(h), slot, a...]() mutable {
        if (slot.is_connected()) slot.clear();
        asio::dispatch(ex, [h = std::move(h), a...]() mutable { std::move(h)(a...); });
    });
}

void World::complete_io(std::optional<Conn::PIo>& op, error_code ec, size_t n) {
    if (!op) return;
    Conn::PIo p = std::move(*op);
    op.reset();
    asio::any_io_executor ex = p.work;
    post_handler(ex, std::move(p.h), ec, n);
}

void World::complete_ec(std::optional<Conn::PEc>& op, error_code ec) {
    if (!op) return;
    Conn::PEc p = std::move(*op);
    op.reset();
    asio::any_io_executor ex = p.work;
    post_handler(ex, std::move(p.h), ec);
}

static asio::any_io_executor tracked(const asio::any_io_executor& ex) {
    return asio::prefer(ex, asio::execution::outstanding_work.tracked);
}

void World::s_open(StreamState& s) {
    if (s.id < 0) s.id = next_stream_id_++;
    s.open = true;
}

void World::abort_ops(const ConnPtr& c, const char* why) {
    (void)why;
    namespace ae = asio::error;
    if (c->p_connect) { complete_ec(c->p_connect, ae::operation_aborted); if (connects_in_progress > 0) --connects_in_progress; log(Ev::connect_end, c->id, -1, 0, "operation_aborted(close)"); }
    if (c->p_read) { log(Ev::read_end, c->id, -1, 0, "operation_aborted(close)"); complete_io(c->p_read, ae::operation_aborted, 0); }
    if (c->p_write) {
        int wid = c->p_write->write_id;
        if (wid >= 0) { auto& w = h.writes[wid]; w.done = true; w.result = ae::operation_aborted; w.aborted_by_close = true; w.seq_end = next_seq(); w.t_end = now(); }
        log(Ev::write_end, c->id, wid, 0, "operation_aborted(close)");
        complete_io(c->p_write, ae::operation_aborted, 0);
    }
    if (c->p_shutdown) { log(Ev::shutdown_end, c->id, -1, 0, "operation_aborted(close)"); complete_ec(c->p_shutdown, ae::operation_aborted); }
}

void World::s_close(StreamState& s, const char* why) {
    s.open = false;
    s.connected = false;
    if (!s.conn) return;
    ConnPtr c = s.conn;
    s.conn.reset();
    c->owner = nullptr;
    abort_ops(c, why);
    if (c->st != Conn::closed) {
        bool was_dead = c->st == Conn::dead;
        c->st = Conn::closed;
        auto& r = crec(c);
        if (r.t_closed < 0) { r.t_closed = now(); r.seq_closed = next_seq(); r.closed_by = was_dead ? r.closed_by : "client"; if (r.close_cause.empty()) r.close_cause = why; }
        log(Ev::conn_close, c->id, -1, 0, std::string("by client: ") + why);
        notify_broker_lost(c, true);
    }
}

void World::s_destroy(StreamState& s) { s_close(s, "stream destroyed"); }

void World::s_connect(StreamState& s, const asio::ip::tcp::endpoint& ep, EcHandler hnd) {
    namespace ae = asio::error;
    if (s.conn) s_close(s, "reconnect on same stream");
    s.open = true;
    int attempt = attempts_made++;
    auto c = std::make_shared<Conn>();
    c->id = (int)conns_.size();
    conns_.push_back(c);
    c->ep = ep;
    c->plan = attempt < (int)attempts.size() ? attempts[attempt] : default_attempt;
    c->owner = &s;
    s.conn = c;
    ConnRec r; r.id = c->id; r.attempt = attempt; r.addr = ep.address().to_string(); r.port = ep.port();
    r.seq_begin = next_seq(); r.t_begin = now();
    h.conns.push_back(r);
    // single-flight bookkeeping: no other connection may still be busy with its handshake
    for (auto& o : conns_)
        if (o != c && (o->st == Conn::connecting || o->st == Conn::up) && !crec(o).established && (o->p_connect || o->p_read || o->p_write || o->p_shutdown))
            log(Ev::note, c->id, o->id, 0, "overlap: connect initiated while connection " + std::to_string(o->id) + " is still handshaking");
    if (resolving > 0) log(Ev::note, c->id, -1, 0, "overlap: connect initiated while a resolution is in flight");
    ++connects_in_progress;
    max_connects_in_progress = std::max(max_connects_in_progress, connects_in_progress);
    log(Ev::connect_begin, c->id, attempt, 0, r.addr + ":" + std::to_string(r.port));
    c->p_connect = Conn::PEc{std::move(hnd), tracked(s.ex)};
    auto slot = asio::get_associated_cancellation_slot(c->p_connect->h);
    std::weak_ptr<Conn> wc = c;
    if (slot.is_connected())
        slot.assign([this, wc](asio::cancellation_type_t) {
            if (auto c = wc.lock(); c && c->p_connect) {
                if (connects_in_progress > 0) --connects_in_progress;
                log(Ev::connect_end, c->id, -1, 0, "operation_aborted(cancel)");
                crec(c).connect_result = ae::operation_aborted;
                complete_ec(c->p_connect, ae::operation_aborted);
            }
        });
    auto finish = [this, wc](error_code ec) {
        auto c = wc.lock();
        if (!c || !c->p_connect) return;
        if (connects_in_progress > 0) --connects_in_progress;
        auto& r = crec(c);
        r.connect_result = ec;
        if (!ec) {
            c->st = Conn::up; c->ordinal = tcp_connections++;
            r.tcp_ok = true; r.t_connected = now(); r.seq_connected = next_seq();
            if (c->owner) { c->owner->connected = true; c->owner->remote = c->ep; }
            if (broker) broker->on_tcp_accept(c);
        } else c->st = Conn::dead, c->tx_error = c->rx_error = ae::not_connected;
        log(Ev::connect_end, c->id, -1, 0, ec_name(ec));
        complete_ec(c->p_connect, ec);
    };
    switch (c->plan.tcp) {
        case AttemptPlan::tcp_ok: after(c->plan.tcp_delay, [finish] { finish(error_code{}); }); break;
        case AttemptPlan::tcp_refused: after(c->plan.tcp_delay, [finish] { finish(ae::connection_refused); }); break;
        case AttemptPlan::tcp_unreachable: after(c->plan.tcp_delay, [finish] { finish(ae::host_unreachable); }); break;
        case AttemptPlan::tcp_hang: break;
    }
}

void World::s_read(StreamState& s, std::vector<asio::mutable_buffer> bufs, IoHandler hnd) {
    namespace ae = asio::error;
    size_t cap = 0;
    for (auto& b : bufs) cap += b.size();
    if (cap == 0) { post_handler(s.ex, std::move(hnd), error_code{}, size_t(0)); return; }
    ConnPtr c = s.conn;
    if (!c || c->st == Conn::closed || c->st == Conn::connecting) { post_handler(s.ex, std::move(hnd), error_code(ae::not_connected), size_t(0)); return; }
    if (c->p_read) { post_handler(s.ex, std::move(hnd), error_code(ae::already_started), size_t(0)); log(Ev::note, c->id, -1, 0, "second read while one is pending"); return; }
    establish_if_due(c);
    log(Ev::read_begin, c->id, -1, (int64_t)cap);
    if (!crec(c).established)
        for (auto& o : conns_)
            if (o != c && (o->st == Conn::connecting || o->st == Conn::up) && !crec(o).established && (o->p_connect || o->p_read || o->p_write || o->p_shutdown))
                log(Ev::note, c->id, o->id, 0, "overlap: handshake i/o while connection " + std::to_string(o->id) + " is still handshaking");
    c->p_read = Conn::PIo{std::move(hnd), tracked(s.ex), std::move(bufs), -1};
    auto slot = asio::get_associated_cancellation_slot(c->p_read->h);
    std::weak_ptr<Conn> wc = c;
    if (slot.is_connected())
        slot.assign([this, wc](asio::cancellation_type_t) {
            if (auto c = wc.lock(); c && c->p_read) { log(Ev::read_end, c->id, -1, 0, "operation_aborted(cancel)"); complete_io(c->p_read, ae::operation_aborted, 0); }
        });
    try_complete_read(c);
}

void World::mark_delivered(const ConnPtr& c) {
    while (!c->undelivered_bpkts.empty()) {
        BPacket& b = h.bpkts[c->undelivered_bpkts.front()];
        if (b.end_offset > c->b2c_read) break;
        b.delivered_t = now(); b.delivered_seq = next_seq();
        c->undelivered_bpkts.pop_front();
    }
}

void World::try_complete_read(const ConnPtr& c) {
    if (!c->p_read) return;
    if (!c->rxbuf.empty()) {
        size_t cap = 0;
        for (auto& b : c->p_read->bufs) cap += b.size();
        size_t n = std::min(cap, c->rxbuf.size());
        if (net.chunking == Chunking::bytewise) n = 1;
        else if (net.chunking == Chunking::random) n = 1 + chunk_rng.below(n);
        size_t copied = asio::buffer_copy(c->p_read->bufs, asio::buffer(c->rxbuf.data(), n));
        c->rxbuf.erase(0, copied);
        c->b2c_read += copied;
        crec(c).b2c_read = c->b2c_read;
        log(Ev::read_end, c->id, -1, (int64_t)c->b2c_read, "ok n=" + std::to_string(copied));
        mark_delivered(c);
        complete_io(c->p_read, error_code{}, copied);
        return;
    }
    if (c->st == Conn::dead && c->rx_error) {
        log(Ev::read_end, c->id, -1, 0, ec_name(c->rx_error));
        complete_io(c->p_read, c->rx_error, 0);
    }
}

Fault* World::fault_for(const ConnPtr& c, Fault::Kind k) {
    for (auto& f : faults)
        if (!f.fired && f.kind == k && f.conn_ordinal == c->ordinal) return &f;
    return nullptr;
}

void World::s_write(StreamState& s, std::string bytes, IoHandler hnd) {
    namespace ae = asio::error;
    ConnPtr c = s.conn;
    if (!c || c->st == Conn::closed || c->st == Conn::connecting) { post_handler(s.ex, std::move(hnd), error_code(ae::not_connected), size_t(0)); return; }
    establish_if_due(c);
    // record the batch and its packets as offered to the transport
    WireWrite w; w.id = (int)h.writes.size(); w.conn = c->id; w.seq_begin = next_seq(); w.t_begin = now(); w.bytes = bytes.size();
    w.offset = c->c2b_sent; w.during_handshake = !crec(c).established;
    {
        size_t off = 0;
        while (off < bytes.size()) {
            CPacket p; p.id = (int)h.cpkts.size(); p.write = w.id; p.conn = c->id; p.offset = c->c2b_sent + off; p.seq = next_seq(); p.t = now();
            p.dec = ref::decode(std::string_view(bytes).substr(off), ref::Dir::from_client);
            size_t len = p.dec.status == ref::Status::ok ? p.dec.consumed : bytes.size() - off;
            p.raw = bytes.substr(off, len);
            c->cpkt_at[p.offset] = p.id;
            w.pkts.push_back(p.id);
            h.cpkts.push_back(std::move(p));
            off += len;
        }
    }
    h.writes.push_back(w);
    log(Ev::write_begin, c->id, w.id, (int64_t)bytes.size());
    if (c->p_write) log(Ev::note, c->id, w.id, 0, "second write while one is pending");
    if (c->st == Conn::dead) {
        auto& wr = h.writes[w.id]; wr.done = true; wr.result = c->tx_error ? c->tx_error : error_code(ae::broken_pipe); wr.seq_end = next_seq(); wr.t_end = now();
        log(Ev::write_end, c->id, w.id, 0, ec_name(wr.result));
        post_handler(s.ex, std::move(hnd), wr.result, size_t(0));
        return;
    }
    size_t before = c->c2b_sent, len = bytes.size();
    // faults on the client -> broker direction
    if (Fault* f = fault_for(c, Fault::reset_c2b); f && f->at >= before && f->at < before + len) {
        f->fired = true;
        size_t pre = f->at - before;
        error_code ec = reconnectable_error(f->ec);
        if (ec == ae::eof || ec == ae::timed_out || ec == ae::not_connected) ec = ae::connection_reset;
        c->c2b_sent += pre;
        crec(c).c2b_bytes = c->c2b_sent;
        h.writes[w.id].delivered = pre;
        log(Ev::fault, c->id, w.id, (int64_t)f->at, "reset while writing: " + std::to_string(pre) + " of " + std::to_string(len) + " bytes leave, then " + ec_name(ec));
        if (pre) deliver_c2b(c, bytes.substr(0, pre), w.id);
        auto& wr = h.writes[w.id]; wr.done = true; wr.result = ec; wr.seq_end = next_seq(); wr.t_end = now();
        log(Ev::write_end, c->id, w.id, 0, ec_name(ec));
        post_handler(s.ex, std::move(hnd), ec, size_t(0));
        kill(c, ec, ec, "fault reset_c2b");
        return;
    }
    if (Fault* f = fault_for(c, Fault::write_fail_delivered); f && f->at >= before && f->at < before + len) {
        f->fired = true;
        error_code ec = ae::connection_reset;
        c->c2b_sent += len;
        crec(c).c2b_bytes = c->c2b_sent;
        h.writes[w.id].delivered = len;
        log(Ev::fault, c->id, w.id, (int64_t)f->at, "batch delivered completely, write reported failed (" + ec_name(ec) + ")");
        // the bytes are already on the wire: the broker processes them (in order) before it notices the connection is gone
        deliver_c2b(c, bytes, w.id);
        auto& wr = h.writes[w.id]; wr.done = true; wr.result = ec; wr.seq_end = next_seq(); wr.t_end = now();
        log(Ev::write_end, c->id, w.id, 0, ec_name(ec));
        post_handler(s.ex, std::move(hnd), ec, size_t(0));
        kill(c, ec, ec, "fault write_fail_delivered");
        return;
    }
    if (Fault* f = fault_for(c, Fault::write_stall); c->write_stalled || (f && f->at >= before && f->at < before + len)) {
        if (f && !c->write_stalled) { f->fired = true; log(Ev::fault, c->id, w.id, (int64_t)f->at, "peer stopped reading: this write and later ones stay pending, the broker falls silent"); }
        bool first = !c->write_stalled;
        c->write_stalled = true; c->stalled = true; c->broker_closed = true;
        { auto& r = crec(c); if (!r.faulted) { r.faulted = true; r.t_fault = now(); r.seq_fault = next_seq(); } }
        h.writes[w.id].delivered = 0;
        c->p_write = Conn::PIo{std::move(hnd), tracked(s.ex), {}, w.id};
        std::weak_ptr<Conn> wc = c; int wid = w.id;
        if (first)   // a blocked TCP write does not hang for ever: the kernel gives up (modelled: 30 s)
            after(30 * SEC, [this, wc] {
                auto c = wc.lock();
                if (!c || c->st == Conn::closed) return;
                log(Ev::fault, c->id, -1, 0, "blocked write gives up: connection timed out");
                c->write_stalled = false;
                if (c->st == Conn::up) { kill(c, ae::timed_out, ae::timed_out, "write_stall timeout"); return; }
                if (c->p_write) {   // the read side had died already; now the blocked write fails too
                    int wid = c->p_write->write_id;
                    if (wid >= 0) { auto& w = h.writes[wid]; w.done = true; w.result = ae::timed_out; w.seq_end = next_seq(); w.t_end = now(); }
                    log(Ev::write_end, c->id, wid, 0, "timed_out");
                    complete_io(c->p_write, ae::timed_out, 0);
                }
            });
        auto slot = asio::get_associated_cancellation_slot(c->p_write->h);
        if (slot.is_connected())
            slot.assign([this, wc, wid](asio::cancellation_type_t) {
                if (auto c = wc.lock(); c && c->p_write && c->p_write->write_id == wid) {
                    auto& wr = h.writes[wid]; wr.done = true; wr.result = ae::operation_aborted; wr.seq_end = next_seq(); wr.t_end = now();
                    log(Ev::write_end, c->id, wid, 0, "operation_aborted(cancel)");
                    complete_io(c->p_write, ae::operation_aborted, 0);
                }
            });
        return;
    }
    c->c2b_sent += len;
    crec(c).c2b_bytes = c->c2b_sent;
    h.writes[w.id].delivered = len;
    deliver_c2b(c, std::move(bytes), w.id);
    vt d = net.write_done_delay_max > 0 ? (vt)rng.range(std::min(net.write_done_delay_min, net.write_done_delay_max), net.write_done_delay_max) : 0;
    c->p_write = Conn::PIo{std::move(hnd), tracked(s.ex), {}, w.id};
    std::weak_ptr<Conn> wc = c;
    int wid = w.id;
    auto slot = asio::get_associated_cancellation_slot(c->p_write->h);
    if (slot.is_connected())
        slot.assign([this, wc, wid](asio::cancellation_type_t) {
            if (auto c = wc.lock(); c && c->p_write && c->p_write->write_id == wid) {
                auto& wr = h.writes[wid]; wr.done = true; wr.result = ae::operation_aborted; wr.seq_end = next_seq(); wr.t_end = now();
                log(Ev::write_end, c->id, wid, 0, "operation_aborted(cancel)");
                complete_io(c->p_write, ae::operation_aborted, 0);
            }
        });
    auto done = [this, wc, wid, len] {
        auto c = wc.lock();
        if (!c || !c->p_write || c->p_write->write_id != wid) return;
        auto& wr = h.writes[wid]; wr.done = true; wr.result = error_code{}; wr.reported_bytes = len; wr.seq_end = next_seq(); wr.t_end = now();
        log(Ev::write_end, c->id, wid, (int64_t)len, "ok");
        complete_io(c->p_write, error_code{}, len);
    };
    if (d == 0) done(); else after(d, done);
}

void World::deliver_c2b(const ConnPtr& c, std::string bytes, int write_id) {
    vt lat = (vt)rng.range(net.latency_min, net.latency_max);
    vt when = std::max(c->c2b_last_arrival, now() + lat);
    c->c2b_last_arrival = when;
    std::weak_ptr<Conn> wc = c;
    at(when, [this, wc, bytes = std::move(bytes), write_id] {
        auto c = wc.lock();
        if (!c || !broker) return;
        crec(c).c2b_delivered += bytes.size();
        broker->on_bytes(c, bytes, write_id);
    });
}

void World::broker_send(const ConnPtr& c, const std::string& bytes, int, int) {
    namespace ae = asio::error;
    if (c->st != Conn::up || c->broker_closed) return;
    size_t before = c->b2c_sent, len = bytes.size();
    c->b2c_sent += len;
    crec(c).b2c_bytes = c->b2c_sent;
    vt lat = (vt)rng.range(net.latency_min, net.latency_max);
    vt when = std::max(c->b2c_last_arrival, now() + lat);
    c->b2c_last_arrival = when;
    std::weak_ptr<Conn> wc = c;
    std::string part = bytes;
    bool reset_after = false, eof_after = false; int fec = 0; size_t fat = 0;
    if (Fault* f = fault_for(c, Fault::reset_b2c); f && f->at >= before && f->at < before + len) { f->fired = true; part = bytes.substr(0, f->at - before); reset_after = true; fec = f->ec; fat = f->at; }
    else if (Fault* f2 = fault_for(c, Fault::eof_b2c); f2 && f2->at >= before && f2->at < before + len) { f2->fired = true; part = bytes.substr(0, f2->at - before); eof_after = true; fat = f2->at; }
    else if (Fault* f3 = fault_for(c, Fault::stall_b2c); f3 && crec(c).connack_sent && crec(c).connack_bpkt >= 0 &&
             h.bpkts[crec(c).connack_bpkt].end_offset + f3->at >= before && h.bpkts[crec(c).connack_bpkt].end_offset + f3->at < before + len && before >= h.bpkts[crec(c).connack_bpkt].end_offset) {
        // (the offset of this fault counts from the end of the CONNACK: the silence begins on an established connection)
        size_t cut = h.bpkts[crec(c).connack_bpkt].end_offset + f3->at;
        f3->fired = true; part = bytes.substr(0, cut - before); c->broker_closed = true;   // not a transport fault: the connection is up and silent
        log(Ev::fault, c->id, -1, (int64_t)f3->at, "broker->client path stalls after " + std::to_string(f3->at) + " bytes (mid-packet silence, the connection stays up)");
    }
    if (reset_after || eof_after) c->broker_closed = true;   // nothing after the cut reaches the client
    at(when, [this, wc, part, reset_after, eof_after, fec, fat] {
        auto c = wc.lock();
        if (!c) return;
        if (!part.empty()) arrive_b2c(c, part);
        if (reset_after) {
            error_code ec = reconnectable_error(fec);
            log(Ev::fault, c->id, -1, (int64_t)fat, "connection lost after " + std::to_string(fat) + " broker->client bytes: " + ec_name(ec));
            error_code wec = (ec == ae::eof || ec == ae::timed_out) ? error_code(ae::broken_pipe) : ec;
            kill(c, ec, wec, "fault reset_b2c");
        } else if (eof_after) {
            log(Ev::fault, c->id, -1, (int64_t)fat, "broker side closed after " + std::to_string(fat) + " bytes (EOF once read)");
            kill(c, ae::eof, ae::broken_pipe, "fault eof_b2c");
        }
    });
}

void World::arrive_b2c(const ConnPtr& c, std::string bytes) {
    if (c->st != Conn::up && !(c->st == Conn::dead && c->rx_error == asio::error::eof)) return;
    c->rxbuf += bytes;
    c->b2c_arrived += bytes.size();
    try_complete_read(c);
}

void World::broker_close(const ConnPtr& c, bool reset) {
    namespace ae = asio::error;
    if (c->st != Conn::up) return;
    c->broker_closed = true;
    vt when = std::max(c->b2c_last_arrival, now() + (vt)rng.range(net.latency_min, net.latency_max));
    c->b2c_last_arrival = when;
    std::weak_ptr<Conn> wc = c;
    at(when, [this, wc, reset] {
        auto c = wc.lock();
        if (!c || c->st != Conn::up) return;
        auto& r = crec(c);
        r.closed_by = "broker";
        if (reset) kill(c, ae::connection_reset, ae::connection_reset, "broker reset");
        else kill(c, ae::eof, ae::broken_pipe, "broker closed");
    });
}

void World::kill(const ConnPtr& c, error_code read_ec, error_code write_ec, const char* cause) {
    namespace ae = asio::error;
    if (c->st == Conn::closed || c->st == Conn::dead) return;
    bool was_connecting = c->st == Conn::connecting;
    c->st = Conn::dead;
    c->rx_error = read_ec; c->tx_error = write_ec;
    if (read_ec != ae::eof) c->rxbuf.clear();   // a reset discards unread data, an orderly close does not
    auto& r = crec(c);
    if (!r.faulted) { r.faulted = true; r.t_fault = now(); r.seq_fault = next_seq(); }
    if (r.closed_by.empty()) r.closed_by = "network";
    if (r.close_cause.empty()) r.close_cause = cause;
    log(Ev::fault, c->id, -1, 0, std::string("connection dead: ") + cause);
    if (was_connecting && c->p_connect) { if (connects_in_progress > 0) --connects_in_progress; log(Ev::connect_end, c->id, -1, 0, ec_name(read_ec)); complete_ec(c->p_connect, read_ec); }
    try_complete_read(c);
    if (c->p_write && !c->write_stalled) {   // a write blocked on a full send buffer is ended by close(), not by the read-side failure
        int wid = c->p_write->write_id;
        if (wid >= 0) { auto& w = h.writes[wid]; w.done = true; w.result = write_ec; w.seq_end = next_seq(); w.t_end = now(); }
        log(Ev::write_end, c->id, wid, 0, ec_name(write_ec));
        complete_io(c->p_write, write_ec, 0);
    }
    if (c->p_shutdown) { log(Ev::shutdown_end, c->id, -1, 0, ec_name(write_ec)); complete_ec(c->p_shutdown, write_ec); }
    notify_broker_lost(c, false);
}

// the broker sees the end of a connection only after the client bytes that were already in flight
void World::notify_broker_lost(const ConnPtr& c, bool by_client) {
    if (!broker) return;
    vt when = std::max(now(), c->c2b_last_arrival);
    std::weak_ptr<Conn> wc = c;
    at(when, [this, wc, by_client] { if (auto c = wc.lock(); c && broker) broker->on_conn_lost(c, by_client); });
}

void World::s_shutdown(StreamState& s, EcHandler hnd) {
    namespace ae = asio::error;
    ConnPtr c = s.conn;
    if (!c || c->st == Conn::closed) { post_handler(s.ex, std::move(hnd), error_code(ae::not_connected)); return; }
    log(Ev::shutdown_begin, c->id);
    if (c->st == Conn::dead || c->st == Conn::connecting) { log(Ev::shutdown_end, c->id, -1, 0, "not_connected"); post_handler(s.ex, std::move(hnd), error_code(ae::not_connected)); return; }
    c->p_shutdown = Conn::PEc{std::move(hnd), tracked(s.ex)};
    std::weak_ptr<Conn> wc = c;
    auto slot = asio::get_associated_cancellation_slot(c->p_shutdown->h);
    if (slot.is_connected())
        slot.assign([this, wc](asio::cancellation_type_t) {
            if (auto c = wc.lock(); c && c->p_shutdown) { log(Ev::shutdown_end, c->id, -1, 0, "operation_aborted(cancel)"); complete_ec(c->p_shutdown, ae::operation_aborted); }
        });
    if (net.shutdown_hangs) return;
    after(net.shutdown_delay, [this, wc] {
        auto c = wc.lock();
        if (!c || !c->p_shutdown) return;
        log(Ev::shutdown_end, c->id, -1, 0, "ok");
        complete_ec(c->p_shutdown, error_code{});
    });
}

// ------------------------------------------------------------------------------------------ logger callbacks
void World::on_log_resolve(error_code ec, std::string host, std::string port, int n) {
    log(Ev::log_resolve, -1, n, 0, host + ":" + port + " " + ec_name(ec));
}
void World::on_log_tcp(error_code ec, const asio::ip::tcp::endpoint& ep) {
    log(Ev::log_tcp, -1, -1, 0, ep.address().to_string() + ":" + std::to_string(ep.port()) + " " + ec_name(ec));
}
void World::establish_if_due(const ConnPtr& c) {
    auto& r = crec(c);
    if (r.connack_ok_logged && !r.established) { r.established = true; r.t_established = now(); r.seq_established = next_seq(); }
}
void World::on_log_connack(uint8_t rc, bool session_present) {
    // attribute to the connection whose CONNACK bytes were read last
    int cid = -1; uint64_t best = 0;
    for (auto& b : h.bpkts)
        if (b.pkt.type == ref::CONNACK && b.delivered_t >= 0 && b.delivered_seq >= best) { best = b.delivered_seq; cid = b.conn; }
    // hostile handshakes may deliver CONNACK-looking bytes that are not in bpkts as CONNACK: fall back to the last read
    if (cid < 0)
        for (auto it = h.ev.rbegin(); it != h.ev.rend(); ++it) if (it->kind == Ev::read_end && it->a >= 0) { cid = it->a; break; }
    log(Ev::log_connack, cid, rc, session_present ? 1 : 0);
    // established once the client goes on to use the connection (first read / write after this point): with enhanced
    // authentication the handshake can still be abandoned when the authenticator rejects the Server's final data
    if (cid >= 0 && rc == 0) h.conns[cid].connack_ok_logged = true;
}
void World::on_log_disconnect(uint8_t rc) { log(Ev::log_disconnect, -1, rc); }

}  // namespace sim
