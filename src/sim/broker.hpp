// Protocol-level MQTT 5 broker model on the reference codec. Conformant by default; hostile behaviours are
// explicit options used only by the workloads that say so.
#pragma once
#include <deque>
#include <map>
#include <set>
#include <string>
#include <vector>

#include "ref/refcodec.hpp"
#include "sim/world.hpp"

namespace sim {

struct BrokerCfg {
    Caps caps;                              // announced in every CONNACK
    std::optional<uint32_t> session_expiry; // announced if set
    // Receive Maximum announced by the n-th accepted connection (0 = announce none); beyond the end: caps.receive_maximum
    std::vector<int> receive_maximum_script;
    bool keep_sessions = true;
    int lose_session_pct = 0;               // chance that a reconnect finds the session gone
    vt ack_delay_min = 0, ack_delay_max = 0;
    int fail_rc_pct = 0;                    // acks with an admissible reason code >= 0x80
    int alt_success_rc_pct = 0;             // e.g. 0x10 no matching subscribers
    int ack_props_pct = 0;                  // acks carrying Reason String / User Properties
    int short_form_pct = 30;                // acks using a short form when legal
    bool linger_after_disconnect = false;   // the Server reads the client's DISCONNECT and leaves the connection open (the client has to close it)
    bool silent_after_connack = false;      // never answers anything but the handshake
    vt silent_from = -1;                    // >= 0: stops answering (and sending) from this virtual time on
    vt silent_until = -1;                   // ... until this time (-1: for ever)
    bool answer_ping = true;
    int drop_ack_pct = 0; vt drop_ack_until = 0;   // acknowledgements withheld (connection stays up) with this chance before that time
    std::string only_ack_topics;            // non-empty: only PUBLISHes whose topic contains one of the '|'-separated substrings are acknowledged
    uint16_t suback_granted_max = 2;
    int suback_fail_pct = 0;                // per-topic failing reason codes in SUBACK
    bool suback_all_fail = false;
    // hostile options (C14 / C19 / C01 workloads only)
    int suback_wrong_count_pct = 0;         // SUBACK/UNSUBACK with too few / too many codes
    int ack_bad_rc_pct = 0;                 // acks with a reason code that is not listed for the packet type
};

struct OutMsg {                             // a message the broker sends to the client
    int id = -1;
    std::string tag, topic, payload; ref::Props props;
    uint8_t qos = 0; bool retain = false;
    uint16_t pid = 0;
    enum St { queued, sent, rec_seen, done, abandoned } st = queued;
    std::string session;                    // client id of the session that owns it
    std::vector<int> pub_bpkts, rel_bpkts;  // transmissions
    int ack_cpkt = -1, rec_cpkt = -1, comp_cpkt = -1;   // client packets that answered
    uint64_t seq_enqueued = 0; vt t_enqueued = 0;
    int first_conn = -1;
    bool retransmit_rel_without_state = false;
    int fit_delta = -1;                     // >= 0: the payload is sized at first transmission so that the PUBLISH is (client's Maximum Packet Size - fit_delta) bytes
};

struct Session {
    std::string client_id;
    std::set<uint16_t> in_qos2;             // inbound QoS 2 ids between PUBREC and PUBREL
    std::deque<int> out;                    // OutMsg ids not yet done, in order
    uint16_t next_pid = 1;
    std::vector<std::string> subs;
    int generation = 0;
};

struct BConn {                              // per-connection broker state
    bool got_connect = false, accepted = false, closed = false;
    std::string client_id;
    size_t rx_offset = 0;                   // c2b bytes parsed so far
    int connect_cpkt = -1;
    uint16_t client_receive_max = 65535;
    uint32_t client_max_packet = 0;         // Maximum Packet Size announced in CONNECT (0: none)
    int inflight_to_client = 0;
    bool auth_in_progress = false;
    int reauth_round = 0;
};

class Broker {
public:
    Broker(World& w, BrokerCfg cfg) : w_(w), cfg(cfg) { w.broker = this; }
    ~Broker() { if (w_.broker == this) w_.broker = nullptr; }

    BrokerCfg cfg;
    std::vector<OutMsg> out;                // every broker-originated message of the scenario
    std::map<std::string, Session> sessions;
    // enhanced authentication (C10 workloads): when non-empty the broker runs a challenge dialogue of `auth_rounds`
    std::string auth_method; int auth_rounds = 0;

    // world callbacks
    void on_tcp_accept(const ConnPtr& c);
    void on_bytes(const ConnPtr& c, const std::string& bytes, int write_id);
    void on_conn_lost(const ConnPtr& c, bool by_client);

    // scenario actions
    int publish_to_client(const std::string& tag, std::string topic, std::string payload, uint8_t qos, bool retain, ref::Props props, int fit_delta = -1);
    void send_raw(const ConnPtr& c, const std::string& bytes, BKind kind, const char* note);   // hostile / spurious bytes
    int send_packet(const ConnPtr& c, const ref::Packet& p, BKind kind, int for_cpkt = -1, int out_msg = -1);
    ConnPtr current() const { return current_; }      // connection with an accepted CONNECT, if any
    BConn* state(const ConnPtr& c) { return static_cast<BConn*>(c->broker_state.get()); }
    bool quiet() const;                                // no scheduled output pending
    int pending_acks = 0;
    int accepted_connections = 0;
    int acks_withheld = 0;
    // packets sent between hold() and flush() leave in one segment (they arrive in one read when the client's buffer allows)
    void hold() { holding_ = true; held_.clear(); }
    void flush(const ConnPtr& c) { holding_ = false; if (!held_.empty()) w_.broker_send(c, held_, -1, 0); held_.clear(); }

private:
    World& w_;
    ConnPtr current_;
    bool holding_ = false; std::string held_;
    void handle(const ConnPtr& c, BConn& b, const ref::Decoded& d, int cpkt);
    void do_connect(const ConnPtr& c, BConn& b, const ref::Packet& p, int cpkt);
    void pump_out(const ConnPtr& c);
    bool silent_now() const;
    void later(const ConnPtr& c, std::function<void()> fn);
    ref::Props ack_props();
    uint8_t ack_rc(uint8_t type);
    Session* sess(BConn& b) { auto it = sessions.find(b.client_id); return it == sessions.end() ? nullptr : &it->second; }
};

}  // namespace sim
