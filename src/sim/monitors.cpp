#include "sim/monitors.hpp"

namespace sim {
void monitor_all(const Run&, Verdicts&, vu::Result&) {}
void monitor_engine(const Run&, Verdicts&, vu::Result&) {}
uint64_t trace_shape(const Run&) { return 0; }
}  // namespace sim
