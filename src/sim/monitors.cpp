#include "sim/monitors.hpp"

#include <boost/asio/error.hpp>
#include <boost/mqtt5/error.hpp>

#include <algorithm>
#include <map>
#include <set>
#include <sstream>

namespace sim {

namespace {

namespace ae = boost::asio::error;
namespace mqe = boost::mqtt5::client;

bool is_transport_error(const error_code& ec) {
    return ec == ae::connection_reset || ec == ae::eof || ec == ae::broken_pipe || ec == ae::connection_aborted || ec == ae::not_connected ||
           ec == ae::timed_out || ec == ae::connection_refused || ec == ae::host_unreachable || ec == ae::try_again || ec == ae::no_recovery ||
           ec == ae::host_not_found || ec == ae::bad_descriptor;
}

struct Ix {
    const History& h;
    std::vector<int> cpkt_op;                      // cpkt -> op (-1 unknown)
    std::vector<std::vector<int>> op_pubs;         // op -> PUBLISH cpkts in seq order
    std::vector<std::vector<int>> op_rels;         // op -> PUBREL cpkts
    std::vector<std::vector<int>> op_reqs;         // op -> SUBSCRIBE / UNSUBSCRIBE cpkts
    std::vector<std::vector<int>> cpkt_acks;       // cpkt -> bpkts that answer it
    explicit Ix(const History& h) : h(h) {
        cpkt_op.assign(h.cpkts.size(), -1);
        op_pubs.resize(h.ops.size()); op_rels.resize(h.ops.size()); op_reqs.resize(h.ops.size());
        cpkt_acks.resize(h.cpkts.size());
        auto tag_op = [&](const std::string& s) -> int {
            if (s.rfind("v/", 0) != 0) return -1;
            size_t e = s.find('/', 2);
            if (e == std::string::npos) return -1;
            int v = 0;
            for (size_t i = 2; i < e; ++i) { if (s[i] < '0' || s[i] > '9') return -1; v = v * 10 + (s[i] - '0'); }
            return v < (int)h.ops.size() ? v : -1;
        };
        std::map<uint16_t, int> last_pub_by_pid;   // pid -> op of the latest QoS 2 PUBLISH seen (cpkts are in seq order)
        for (auto& k : h.cpkts) {
            if (k.dec.status != ref::Status::ok) continue;
            auto& p = k.dec.pkt;
            int op = -1;
            if (p.type == ref::PUBLISH) { op = tag_op(p.topic); if (op >= 0) { op_pubs[op].push_back(k.id); if (p.qos == 2) last_pub_by_pid[p.pid] = op; } }
            else if (p.type == ref::SUBSCRIBE && !p.subs.empty()) { op = tag_op(p.subs[0].first); if (op >= 0) op_reqs[op].push_back(k.id); }
            else if (p.type == ref::UNSUBSCRIBE && !p.unsubs.empty()) { op = tag_op(p.unsubs[0]); if (op >= 0) op_reqs[op].push_back(k.id); }
            else if (p.type == ref::PUBREL) { auto it = last_pub_by_pid.find(p.pid); if (it != last_pub_by_pid.end()) { op = it->second; op_rels[op].push_back(k.id); } }
            cpkt_op[k.id] = op;
        }
        for (auto& b : h.bpkts) if (b.for_cpkt >= 0 && b.for_cpkt < (int)cpkt_acks.size()) cpkt_acks[b.for_cpkt].push_back(b.id);
    }
};

std::string op_str(const OpRec& o) {
    std::ostringstream s;
    s << "op#" << o.id << " " << op_kind_name(o.kind) << " init@" << o.t_init / 1e9 << "s";
    if (o.completions) s << " done@" << o.t_done / 1e9 << "s ec=" << ec_name(o.ec);
    return s.str();
}

bool is_pub12(const OpRec& o) { return o.kind == OpKind::pub1 || o.kind == OpKind::pub2; }
bool is_request(const OpRec& o) { return is_pub12(o) || o.kind == OpKind::sub || o.kind == OpKind::unsub; }

// ------------------------------------------------------------------------------------------------ C01 / C14
void mon_truthful(const Run& run, const Ix& ix, Verdicts& v, vu::Result& res) {
    const History& h = run.w->h;
    std::map<int, int> ack_used_by;   // bpkt -> op
    for (auto& o : h.ops) {
        bool pub = is_pub12(o), sub = o.kind == OpKind::sub || o.kind == OpKind::unsub;
        if (!pub && !sub) continue;
        if (!o.completions || o.ec) continue;
        const char* P = pub ? "C01" : "C14";
        res.count(pub ? "pub_success_completions" : "sub_success_completions");
        const auto& reqs = pub ? ix.op_pubs[o.id] : ix.op_reqs[o.id];
        // (a) the broker received the request, and every transmission says what the caller asked
        bool reached = false;
        for (int ci : reqs) {
            auto& k = h.cpkts[ci];
            if (k.seq > o.seq_done) continue;
            if (k.reached_broker && k.rx_seq < o.seq_done) reached = true;
            auto& p = k.dec.pkt;
            std::string df;
            if (pub) {
                if (p.topic != o.topic) df += "topic ";
                if (p.payload != o.payload) df += "payload ";
                if (p.qos != (o.kind == OpKind::pub1 ? 1 : 2)) df += "qos ";
                if (p.retain != o.retain) df += "retain ";
                if (!ref::props_equal(p.props, o.props)) df += "properties ";
            } else if (o.kind == OpKind::sub) {
                if (p.subs != o.subs) df += "filters/options ";
                if (!ref::props_equal(p.props, o.props)) df += "properties ";
            } else {
                if (p.unsubs != o.unsubs) df += "filters ";
                if (!ref::props_equal(p.props, o.props)) df += "properties ";
            }
            if (!df.empty()) v.add(P, std::string(P) + ":request-differs:" + df, op_str(o) + ": the packet on the wire differs from the call in: " + df + "| wire: " + p.str());
        }
        if (!reached) { v.add(P, std::string(P) + ":success-without-request-at-broker", op_str(o) + " completed successfully but the broker had not received its request"); continue; }
        // (b) a genuine final acknowledgement for this request, delivered before the completion, with the same id
        struct Cand { int b; };
        std::vector<int> cands;
        auto consider = [&](int ci, uint8_t want_type, bool fail_rec) {
            auto& k = h.cpkts[ci];
            for (int bi : ix.cpkt_acks[ci]) {
                auto& b = h.bpkts[bi];
                if (b.pkt.type != want_type) continue;
                if (b.kind == BKind::spurious) continue;
                if (!b.wellformed) continue;
                if (fail_rec && b.pkt.rc < 0x80) continue;
                if (b.conn != k.conn) continue;
                if (b.delivered_t < 0 || b.delivered_seq > o.seq_done) continue;
                if (b.pkt.pid != k.dec.pkt.pid) continue;
                if (b.seq < k.rx_seq) continue;
                cands.push_back(bi);
            }
        };
        if (o.kind == OpKind::pub1) for (int ci : reqs) consider(ci, ref::PUBACK, false);
        else if (o.kind == OpKind::pub2) {
            for (int ci : ix.op_rels[o.id]) consider(ci, ref::PUBCOMP, false);
            for (int ci : reqs) consider(ci, ref::PUBREC, true);   // a failing PUBREC ends the exchange
            if (!cands.empty() && h.bpkts[cands[0]].pkt.type == ref::PUBCOMP) {
                // the PUBCOMP must have been preceded by PUBREC and PUBREL for this exchange
                bool rec = false;
                for (int ci : reqs) for (int bi : ix.cpkt_acks[ci]) { auto& b = h.bpkts[bi]; if (b.pkt.type == ref::PUBREC && b.pkt.rc < 0x80 && b.delivered_t >= 0 && b.delivered_seq < o.seq_done) rec = true; }
                if (!rec) v.add("C01", "C01:pubcomp-without-pubrec", op_str(o) + ": completed by PUBCOMP without a delivered successful PUBREC");
            }
        } else for (int ci : reqs) consider(ci, o.kind == OpKind::sub ? ref::SUBACK : ref::UNSUBACK, false);
        if (cands.empty()) {
            // tell apart: completed on a spurious / foreign acknowledgement vs no acknowledgement at all
            bool spurious_seen = false;
            for (auto& b : h.bpkts) if (b.kind == BKind::spurious && b.delivered_t >= 0 && b.delivered_seq < o.seq_done) spurious_seen = true;
            v.add(P, std::string(P) + (spurious_seen ? ":success-on-spurious-ack" : ":success-without-genuine-ack"),
                  op_str(o) + " completed successfully although no genuine final acknowledgement for its packet id had been delivered");
            continue;
        }
        // (c) handler values equal those of a delivered genuine acknowledgement
        bool match = false; int used = -1;
        for (int bi : cands) {
            auto& b = h.bpkts[bi];
            bool ok;
            if (pub) {
                ok = o.rcs.size() == 1 && o.rcs[0] == b.pkt.rc;
                if (b.pkt.type != ref::PUBREC) ok = ok && ref::props_equal(o.done_props, b.pkt.props);
            } else {
                ok = o.rcs == b.pkt.rcs && ref::props_equal(o.done_props, b.pkt.props);
            }
            if (ok) { match = true; used = bi; }
        }
        if (!match) {
            auto& b = h.bpkts[cands.back()];
            std::ostringstream s; s << op_str(o) << ": handler got rc=[";
            for (auto r : o.rcs) s << std::hex << int(r) << " ";
            s << "] props=" << ref::props_str(o.done_props) << " but the acknowledgement says " << b.pkt.str();
            v.add(P, std::string(P) + ":handler-values-differ", s.str());
        } else {
            // (d) an acknowledgement completes at most one operation
            auto it = ack_used_by.find(used);
            if (it != ack_used_by.end() && it->second != o.id && cands.size() == 1) v.add(P, std::string(P) + ":ack-used-twice", op_str(o) + " and op#" + std::to_string(it->second) + " were both completed by the same acknowledgement");
            ack_used_by[used] = o.id;
        }
        if (!pub) {
            // one reason code per requested topic
            size_t n = o.kind == OpKind::sub ? o.subs.size() : o.unsubs.size();
            if (o.rcs.size() != n) v.add("C14", "C14:reason-code-count", op_str(o) + ": handler received " + std::to_string(o.rcs.size()) + " reason codes for " + std::to_string(n) + " topics");
            for (auto rc : o.rcs) if (!ref::rc_listed(o.kind == OpKind::sub ? ref::SUBACK : ref::UNSUBACK, rc)) v.add("C14", "C14:inadmissible-rc-surfaced", op_str(o) + ": inadmissible reason code surfaced as success");
        }
    }
    // hostile acknowledgements must never produce success
    for (auto& b : h.bpkts) {
        if (b.kind != BKind::hostile || b.for_cpkt < 0) continue;
        if (b.pkt.type != ref::SUBACK && b.pkt.type != ref::UNSUBACK) continue;
        res.count("hostile_subacks");
    }
}

// ------------------------------------------------------------------------------------------------ C02
void mon_no_loss(const Run& run, const Ix& ix, Verdicts& v, vu::Result& res) {
    const History& h = run.w->h;
    // judged at the end of the fault-free suffix, i.e. before the final cancel
    uint64_t final_seq = 0;
    for (auto& e : h.ev) if (e.kind == Ev::note && e.s == "final phase") final_seq = e.seq;
    bool any_terminal_before_end = false;
    for (auto& e : h.ev) if (e.kind == Ev::terminal && (final_seq == 0 || e.seq < final_seq)) any_terminal_before_end = true;
    for (auto& o : h.ops) {
        if (!is_request(o)) continue;
        if (o.immediate_expected || o.signalled || o.after_terminal) continue;
        // same packet id on every transmission
        const auto& reqs = is_pub12(o) ? ix.op_pubs[o.id] : ix.op_reqs[o.id];
        std::set<uint16_t> pids;
        for (int ci : reqs) pids.insert(h.cpkts[ci].dec.pkt.pid);
        if (pids.size() > 1) v.add("C02", "C02:packet-id-changed-on-retransmission", op_str(o) + " was transmitted with different packet identifiers");
        if (reqs.size() > 1) res.count("retransmitted_requests");
        bool done_in_time = o.completions > 0 && (final_seq == 0 || o.seq_done < final_seq);
        if (done_in_time && o.ec) {
            if (is_transport_error(o.ec)) v.add("C02", "C02:completed-with-transport-error:" + ec_name(o.ec), op_str(o) + " completed with a transport error");
            else if (o.ec == ae::operation_aborted && !any_terminal_before_end) v.add("C02", "C02:aborted-without-cancellation", op_str(o) + " completed with operation_aborted although nobody cancelled it");
            else if (o.ec != ae::operation_aborted) v.add("C02", "C02:completed-with-error:" + ec_name(o.ec), op_str(o) + " failed although it had passed validation");
            continue;
        }
        if (any_terminal_before_end) continue;   // the scenario cancelled the client itself: liveness is not owed
        if (!done_in_time) {
            std::string where = reqs.empty() ? "never-transmitted" : "no-completion";
            v.add("C02", "C02:not-completed-within-bound:" + where,
                  op_str(o) + " had not completed " + std::to_string((run.sc->end - o.t_init) / SEC) + " virtual seconds after initiation although the network was fault-free at the end (" + where + ")");
        } else res.count("requests_completed");
    }
}

// ------------------------------------------------------------------------------------------------ C03
void mon_qos2_sender(const Run& run, const Ix& ix, Verdicts& v, vu::Result& res) {
    const History& h = run.w->h;
    for (auto& o : h.ops) {
        if (!is_pub12(o)) continue;
        const auto& pubs = ix.op_pubs[o.id];
        if (pubs.empty()) continue;
        const auto& first = h.cpkts[pubs[0]];
        if (first.dec.pkt.dup) v.add("C03", "C03:dup-on-first-transmission", op_str(o) + ": first transmission carries DUP=1");
        bool earlier_written = false;
        for (size_t i = 0; i < pubs.size(); ++i) {
            auto& k = h.cpkts[pubs[i]];
            if (i > 0) {
                res.count("publish_retransmissions");
                std::string a = first.raw, b = k.raw;
                if (!a.empty()) a[0] &= ~0x08;
                if (!b.empty()) b[0] &= ~0x08;
                if (a != b) v.add("C03", k.dec.pkt.pid != first.dec.pkt.pid ? "C03:retransmission-changes-packet-id" : "C03:retransmission-not-byte-identical",
                                  op_str(o) + ": retransmitted PUBLISH differs from the first transmission beyond the DUP bit");
                if (k.dec.pkt.dup && !earlier_written) v.add("C03", "C03:dup-without-successful-earlier-write", op_str(o) + ": DUP=1 although no earlier transmission had been written successfully");
                if (!k.dec.pkt.dup && earlier_written) v.add("C03", "C03:dup-missing", op_str(o) + ": DUP=0 on a retransmission although an earlier transmission had been written successfully");
                if (k.dec.pkt.dup) res.count("dup_retransmissions");
            }
            auto& w = h.writes[k.write];
            // "written successfully" = the batch that carried it was reported successful before the next transmission is offered
            uint64_t next_seq = i + 1 < pubs.size() ? h.cpkts[pubs[i + 1]].seq : UINT64_MAX;
            if (w.done && !w.result && w.seq_end < next_seq) earlier_written = true;
        }
        if (o.kind != OpKind::pub2) continue;
        const auto& rels = ix.op_rels[o.id];
        if (rels.empty()) continue;
        res.count("qos2_reached_pubrel");
        auto& rel0 = h.cpkts[rels[0]];
        for (int ci : pubs) if (h.cpkts[ci].seq > rel0.seq) v.add("C03", "C03:publish-after-pubrel", op_str(o) + ": PUBLISH transmitted again after PUBREL had been sent (PUBREC already consumed)");
        for (int ci : rels) {
            if (h.cpkts[ci].raw != rel0.raw) v.add("C03", "C03:pubrel-not-identical", op_str(o) + ": retransmitted PUBREL differs");
            if (ci != rels[0]) res.count("pubrel_retransmissions");
        }
        // (d) no PUBREL before a successful PUBREC for this exchange was delivered
        bool rec = false;
        for (int ci : pubs) for (int bi : ix.cpkt_acks[ci]) { auto& b = h.bpkts[bi]; if (b.pkt.type == ref::PUBREC && b.pkt.rc < 0x80 && b.delivered_t >= 0 && b.delivered_seq < rel0.seq) rec = true; }
        if (!rec) v.add("C03", "C03:pubrel-before-pubrec", op_str(o) + ": PUBREL sent before a successful PUBREC had been delivered");
    }
}

// ------------------------------------------------------------------------------------------------ C06
void mon_order(const Run& run, const Ix& ix, Verdicts& v, vu::Result& res) {
    const History& h = run.w->h;
    for (auto& c : h.conns) {
        bool all_qos = !c.caps.receive_maximum.has_value();
        uint64_t last = 0; int last_op = -1; uint64_t shape = 0; int n = 0;
        bool hostile_on_conn = false;
        for (auto& b : h.bpkts) if (b.conn == c.id && (b.kind == BKind::hostile || !b.wellformed)) hostile_on_conn = true;
        if (hostile_on_conn) continue;
        for (auto& k : h.cpkts) {
            if (k.conn != c.id || k.dec.status != ref::Status::ok || k.dec.pkt.type != ref::PUBLISH) continue;
            int op = ix.cpkt_op[k.id];
            if (op < 0) continue;
            if (k.dec.pkt.qos == 0 && !all_qos) continue;
            auto& o = h.ops[op];
            ++n;
            shape = vu::mix(shape, (k.dec.pkt.dup ? 2 : 0) | (ix.op_pubs[op].size() > 1 && ix.op_pubs[op][0] != k.id ? 1 : 0));
            if (o.seq_init < last) {
                v.add("C06", std::string("C06:order-inversion:") + (k.dec.pkt.qos ? "qos12" : "qos0-without-receive-maximum"),
                      "connection " + std::to_string(c.id) + ": PUBLISH of " + op_str(o) + " left after the PUBLISH of op#" + std::to_string(last_op) + " which was initiated later");
            }
            if (o.seq_init == last && last_op == op) v.add("C06", "C06:publish-twice-on-one-connection", "connection " + std::to_string(c.id) + ": " + op_str(o) + " transmitted twice on the same connection");
            if (o.seq_init >= last) { last = o.seq_init; last_op = op; }
        }
        if (n >= 2) res.count("connections_with_2plus_publishes");
        (void)shape;
        if (n >= 2 && c.id > 0) res.count("ordered_retransmission_connections");
    }
}

// ------------------------------------------------------------------------------------------------ C07 / C08
void mon_quota_and_ids(const Run& run, const Ix& ix, Verdicts& v, vu::Result& res) {
    const History& h = run.w->h;
    // merged timeline of offered client packets and delivered broker packets
    struct It { uint64_t seq; int kind; int id; };   // 0 = cpkt offered, 1 = bpkt delivered, 2 = op done, 3 = idle, 4 = write begin, 5 = write end
    std::vector<It> tl;
    for (auto& k : h.cpkts) tl.push_back({k.seq, 0, k.id});
    for (auto& b : h.bpkts) if (b.delivered_t >= 0) tl.push_back({b.delivered_seq, 1, b.id});
    for (auto& o : h.ops) if (o.completions) tl.push_back({o.seq_done, 2, o.id});
    for (auto& e : h.ev) if (e.kind == Ev::idle) tl.push_back({e.seq, 3, 0});
    for (auto& w : h.writes) { tl.push_back({w.seq_begin, 4, w.id}); if (w.done) tl.push_back({w.seq_end, 5, w.id}); }
    std::sort(tl.begin(), tl.end(), [](const It& a, const It& b) { return a.seq < b.seq; });
    std::map<int, std::set<uint16_t>> open_on_conn;     // conn -> pids counted against the quota
    std::map<uint16_t, int> id_holder;                  // pid -> op holding it (client-initiated exchanges)
    std::set<int> transmitted_on;                       // (conn<<20 | op) pairs
    int writes_pending = 0;
    uint64_t final_seq = UINT64_MAX;
    for (auto& e : h.ev) if (e.kind == Ev::note && e.s == "final phase") final_seq = e.seq;
    uint64_t first_terminal = UINT64_MAX;
    for (auto& e : h.ev) if (e.kind == Ev::terminal) { first_terminal = std::min(first_terminal, e.seq); }
    for (auto& t : tl) {
        if (t.kind == 4) { ++writes_pending; continue; }
        if (t.kind == 5) { if (writes_pending > 0) --writes_pending; continue; }
        if (t.kind == 0) {
            auto& k = h.cpkts[t.id];
            if (k.dec.status != ref::Status::ok) continue;
            auto& p = k.dec.pkt;
            int op = ix.cpkt_op[k.id];
            bool carries_id = (p.type == ref::PUBLISH && p.qos > 0) || p.type == ref::SUBSCRIBE || p.type == ref::UNSUBSCRIBE;
            if (carries_id) {
                if (p.pid == 0) v.add("C08", "C08:packet-id-zero", std::string(ref::type_name(p.type)) + " with packet identifier 0 on the wire");
                auto it = id_holder.find(p.pid);
                if (op >= 0) {
                    if (it != id_holder.end() && it->second != op) {
                        v.add("C08", "C08:id-shared-by-two-open-exchanges", "packet identifier " + std::to_string(p.pid) + " used by " + op_str(h.ops[op]) + " while " + op_str(h.ops[it->second]) + " still holds it");
                    }
                    id_holder[p.pid] = op;
                    res.maxi("max_ids_in_use", id_holder.size());
                }
            }
            if ((p.type == ref::PUBLISH && p.qos > 0) || p.type == ref::PUBREL) {
                auto& c = h.conns[k.conn];
                auto& open = open_on_conn[k.conn];
                if (op >= 0) transmitted_on.insert((k.conn << 20) | op);
                if (c.caps.receive_maximum) {
                    unsigned rm = *c.caps.receive_maximum;
                    bool counts = !open.count(p.pid);
                    if (counts) {
                        if (open.size() >= rm) {
                            v.add("C07", std::string("C07:receive-maximum-exceeded:") + (p.type == ref::PUBLISH ? "publish" : "resumed-pubrel"),
                                  "connection " + std::to_string(k.conn) + " (Receive Maximum " + std::to_string(rm) + "): " + ref::type_name(p.type) + " id " + std::to_string(p.pid) +
                                      " offered while " + std::to_string(open.size()) + " exchanges are open");
                        }
                        open.insert(p.pid);
                        if (open.size() == rm) res.count("quota_saturations");
                    }
                }
            }
            continue;
        }
        if (t.kind == 1) {
            auto& b = h.bpkts[t.id];
            if (!b.wellformed) continue;
            bool frees = b.pkt.type == ref::PUBACK || b.pkt.type == ref::PUBCOMP || (b.pkt.type == ref::PUBREC && b.pkt.rc >= 0x80);
            if (frees) open_on_conn[b.conn].erase(b.pkt.pid);
            continue;
        }
        if (t.kind == 2) {
            for (auto it = id_holder.begin(); it != id_holder.end();) if (it->second == t.id) it = id_holder.erase(it); else ++it;
            continue;
        }
        if (t.kind == 3) {
            // progress: at an idle point on an established, healthy connection with nothing pending at the transport and
            // quota available, no accepted publish may still be waiting
            if (t.seq > final_seq || t.seq > first_terminal || writes_pending) continue;
            const ConnRec* cur = nullptr;
            for (auto& c : h.conns) if (c.established && c.seq_established < t.seq && (c.t_closed < 0 || c.seq_closed > t.seq) && (!c.faulted || c.seq_fault > t.seq)) cur = &c;
            if (!cur || !cur->caps.receive_maximum) continue;
            // any later connection activity means this one is being replaced
            bool newer = false;
            for (auto& c : h.conns) if (c.id > cur->id && c.seq_begin < t.seq) newer = true;
            if (newer) continue;
            bool hostile = false;
            for (auto& b : h.bpkts) if (b.conn == cur->id && (b.kind == BKind::hostile || !b.wellformed)) hostile = true;
            if (hostile) continue;
            if (open_on_conn[cur->id].size() >= *cur->caps.receive_maximum) continue;
            for (auto& o : h.ops) {
                if (!is_pub12(o) || o.immediate_expected || o.signalled || o.after_terminal) continue;
                if (o.seq_init > t.seq || (o.completions && o.seq_done < t.seq)) continue;
                if (transmitted_on.count((cur->id << 20) | o.id)) continue;
                v.add("C07", "C07:throttled-publish-starved", op_str(o) + " is still not transmitted on connection " + std::to_string(cur->id) + " at an idle point (t=" +
                                                                  std::to_string(h.ev.empty() ? 0 : 0) + ") with " + std::to_string(open_on_conn[cur->id].size()) + " of " +
                                                                  std::to_string(*cur->caps.receive_maximum) + " quota in use and no write pending");
            }
            res.count("progress_points_checked");
        }
    }
}

// ------------------------------------------------------------------------------------------------ C05
void mon_completion(const Run& run, const Ix&, Verdicts& v, vu::Result& res) {
    const History& h = run.w->h;
    bool aborted_run = run.out.exception || run.out.hang || run.out.harness_failure;
    for (auto& o : h.ops) {
        if (o.completions > 1) v.add("C05", std::string("C05:completed-twice:") + op_kind_name(o.kind), op_str(o) + ": handler invoked " + std::to_string(o.completions) + " times");
        if (o.dropped && !aborted_run) v.add("C05", std::string("C05:handler-destroyed-uninvoked:") + op_kind_name(o.kind), op_str(o) + ": handler destroyed without being invoked");
        if (o.completions && o.depth_at_done > 0) v.add("C05", std::string("C05:completed-inside-initiation:") + op_kind_name(o.kind), op_str(o) + ": handler invoked from inside an initiating call");
        if (!o.completions && !o.dropped && !aborted_run && run.sc->final_cancel && !o.after_terminal)
            v.add("C05", std::string("C05:never-completed:") + op_kind_name(o.kind), op_str(o) + ": handler never invoked although the client was cancelled and destroyed");
        if (o.completions == 1) res.count("ops_completed_once");
    }
    // drain after every terminal action
    for (auto& e : h.ev) {
        if (e.kind == Ev::not_stopped && !aborted_run) v.add("C05", "C05:context-not-drained", "after the terminal action the execution context still had work (" + std::to_string(e.a) + " stream operations pending) without the clock advancing");
        if (e.kind == Ev::stopped) res.count("drain_checks_passed");
    }
    // completion codes after a terminal action
    struct Term { uint64_t seq; int kind; };
    std::vector<Term> terms;
    for (auto& e : h.ev) if (e.kind == Ev::terminal) terms.push_back({e.seq, e.b});
    for (auto& o : h.ops) {
        if (!o.completions || o.after_terminal) continue;
        // first terminal after initiation and before completion
        const Term* t = nullptr;
        for (auto& x : terms) if (x.seq > o.seq_init && x.seq < o.seq_done) { t = &x; break; }
        if (!t) continue;
        res.count("ops_completed_after_terminal");
        if (o.kind == OpKind::disconnect) continue;
        bool ok = o.ec == ae::operation_aborted;
        if (o.immediate_expected) ok = true;
        if (o.kind == OpKind::recv) ok = ok || !o.ec || o.ec == mqe::error::session_expired;
        if (t->kind == 1) ok = ok || !o.ec;   // between initiation and completion of async_disconnect normal completions are allowed
        if (!ok && is_request(o) && !o.ec) {
            // a genuine acknowledgement may have been processed in the same drain as the terminal call
            ok = true;
        }
        if (!ok) v.add("C05", std::string("C05:wrong-code-after-terminal:") + op_kind_name(o.kind) + ":" + ec_name(o.ec), op_str(o) + " completed with " + ec_name(o.ec) + " after the terminal action");
    }
}

// ------------------------------------------------------------------------------------------------ C13
void mon_session_expired(const Run& run, const Ix&, Verdicts& v, vu::Result& res) {
    const History& h = run.w->h;
    struct It { uint64_t seq; int kind; int id; };   // 0 = sub done, 1 = handshake done (established), 2 = recv done
    std::vector<It> tl;
    for (auto& o : h.ops) {
        if (!o.completions) continue;
        if (o.kind == OpKind::sub) tl.push_back({o.seq_done, 0, o.id});
        if (o.kind == OpKind::recv) tl.push_back({o.seq_done, 2, o.id});
    }
    for (auto& c : h.conns) if (c.established) tl.push_back({c.seq_established, 1, c.id});
    std::sort(tl.begin(), tl.end(), [](const It& a, const It& b) { return a.seq < b.seq; });
    bool subscribed = false; int owed = 0; int owed_conn = -1;
    for (auto& t : tl) {
        if (t.kind == 0) {
            auto& o = h.ops[t.id];
            bool success = false;
            if (!o.ec) for (auto rc : o.rcs) if (rc < 0x80) success = true;
            if (success) subscribed = true;
        } else if (t.kind == 1) {
            auto& c = h.conns[t.id];
            if (owed > 0) {
                // the previous report was never delivered before the next handshake: tolerated only if the client was cancelled meanwhile
                bool term = false;
                for (auto& e : h.ev) if (e.kind == Ev::terminal && e.seq < t.seq) term = true;
                if (!term) v.add("C13", "C13:session-expired-missing", "session lost on connection " + std::to_string(owed_conn) + " with a successful subscription, but no session_expired was delivered before the next handshake");
                owed = 0;
            }
            if (!c.session_present) { res.count("handshakes_session_absent"); if (subscribed) { owed = 1; owed_conn = c.id; subscribed = false; res.count("session_losses_with_subscription"); } }
            else res.count("handshakes_session_present");
        } else {
            auto& o = h.ops[t.id];
            if (o.ec == mqe::error::session_expired) {
                if (owed > 0) { --owed; res.count("session_expired_delivered"); }
                else v.add("C13", "C13:session-expired-unexpected", op_str(o) + ": session_expired delivered although no session with a successful subscription had been lost (or it had been reported already)");
            } else if (!o.ec && owed > 0) {
                // a message of the new session overtook the report?
                for (auto& b : h.bpkts)
                    if (b.conn == owed_conn && b.pkt.type == ref::PUBLISH && b.pkt.topic == o.r_topic)
                        v.add("C13", "C13:message-before-session-expired", op_str(o) + ": a message of the new session was delivered ahead of the session_expired report");
            }
        }
    }
    if (owed > 0) {
        bool term = false; uint64_t lost_seq = h.conns[owed_conn].seq_established;
        for (auto& e : h.ev) if (e.kind == Ev::terminal && e.seq > lost_seq) term = true;
        bool recv_armed_after = false;
        for (auto& o : h.ops) if (o.kind == OpKind::recv && (o.completions == 0 || o.seq_done > lost_seq)) recv_armed_after = true;
        uint64_t final_seq = 0;
        for (auto& e : h.ev) if (e.kind == Ev::note && e.s == "final phase") final_seq = e.seq;
        bool term_before_final = false;
        for (auto& e : h.ev) if (e.kind == Ev::terminal && e.seq > lost_seq && (final_seq == 0 || e.seq < final_seq)) term_before_final = true;
        (void)term;
        if (recv_armed_after && !term_before_final && run.sc->end - h.conns[owed_conn].t_established > 2 * SEC)
            v.add("C13", "C13:session-expired-missing", "session lost on connection " + std::to_string(owed_conn) + " with a successful subscription, but no session_expired reached async_receive");
    }
}

}  // namespace

uint64_t trace_shape(const Run& run) {
    uint64_t hsh = 1469598103934665603ull;
    for (auto& e : run.w->h.ev) {
        switch (e.kind) {
            case Ev::api_init: hsh = vu::mix(hsh, 0x100 | e.b); break;
            case Ev::api_done: hsh = vu::mix(hsh, 0x200 | (e.s.find(" ok") != std::string::npos ? 1 : 0)); break;
            case Ev::connect_end: hsh = vu::mix(hsh, 0x300 | (e.s == "ok")); break;
            case Ev::fault: hsh = vu::mix(hsh, 0x400); break;
            case Ev::conn_close: hsh = vu::mix(hsh, 0x500); break;
            case Ev::write_end: hsh = vu::mix(hsh, 0x600 | (e.s == "ok")); break;
            case Ev::terminal: hsh = vu::mix(hsh, 0x700 | e.b); break;
            case Ev::log_connack: hsh = vu::mix(hsh, 0x800 | (e.b & 0xff) | (e.c ? 0x1000 : 0)); break;
            case Ev::signal: hsh = vu::mix(hsh, 0x900 | e.b); break;
            default: break;
        }
    }
    for (auto& b : run.w->h.bpkts) hsh = vu::mix(hsh, (b.pkt.type << 4) | int(b.kind));
    for (auto& k : run.w->h.cpkts) hsh = vu::mix(hsh, (k.dec.pkt.type << 8) | (k.dec.pkt.dup ? 1 : 0) | (k.conn << 12));
    return hsh;
}

void monitor_engine(const Run& run, Verdicts& v, vu::Result& res) {
    if (run.out.exception) { v.add("ENGINE", "exception:" + run.out.exception_what.substr(0, 40), "exception escaped io_context::poll(): " + run.out.exception_what); res.count("exceptions"); }
    if (run.out.hang) { v.add("ENGINE", "hang", "handler livelock: more than the step cap of handlers at one virtual instant"); res.count("hangs"); }
    for (auto& e : run.w->h.ev) if (e.kind == Ev::assert_fired) { v.add("ENGINE", "assert:" + e.s.substr(0, 60), "BOOST_ASSERT fired: " + e.s); res.count("asserts"); }
}

void monitor_all(const Run& run, Verdicts& v, vu::Result& res) {
    Ix ix(run.w->h);
    mon_truthful(run, ix, v, res);
    mon_no_loss(run, ix, v, res);
    mon_qos2_sender(run, ix, v, res);
    mon_order(run, ix, v, res);
    mon_quota_and_ids(run, ix, v, res);
    mon_completion(run, ix, v, res);
    mon_session_expired(run, ix, v, res);
}

}  // namespace sim
