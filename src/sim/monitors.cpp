#include "sim/monitors.hpp"

#include "ref/lib2ref.hpp"

#include <boost/asio/error.hpp>
#include <boost/mqtt5/error.hpp>

#include <algorithm>
#include <map>
#include <set>
#include <sstream>

namespace sim {

namespace {

namespace ae = boost::asio::error;
namespace mqe = boost::mqtt5::client;

bool is_transport_error(const error_code& ec) {
    return ec == ae::connection_reset || ec == ae::eof || ec == ae::broken_pipe || ec == ae::connection_aborted || ec == ae::not_connected ||
           ec == ae::timed_out || ec == ae::connection_refused || ec == ae::host_unreachable || ec == ae::try_again || ec == ae::no_recovery ||
           ec == ae::host_not_found || ec == ae::bad_descriptor;
}

struct Ix {
    const History& h;
    std::vector<int> cpkt_op;                      // cpkt -> op (-1 unknown)
    std::vector<std::vector<int>> op_pubs;         // op -> PUBLISH cpkts in seq order
    std::vector<std::vector<int>> op_rels;         // op -> PUBREL cpkts
    std::vector<std::vector<int>> op_reqs;         // op -> SUBSCRIBE / UNSUBSCRIBE cpkts
    std::vector<std::vector<int>> cpkt_acks;       // cpkt -> bpkts that answer it
    explicit Ix(const History& h) : h(h) {
        cpkt_op.assign(h.cpkts.size(), -1);
        op_pubs.resize(h.ops.size()); op_rels.resize(h.ops.size()); op_reqs.resize(h.ops.size());
        cpkt_acks.resize(h.cpkts.size());
        // the tag "v/<5 digits>/" may sit behind a "$share/<group>/" prefix
        auto tag_op = [&](const std::string& s) -> int {
            for (size_t p = s.find("v/"); p != std::string::npos; p = s.find("v/", p + 1)) {
                if (p != 0 && s[p - 1] != '/') continue;
                if (p + 8 > s.size() || s[p + 7] != '/') continue;
                int v = 0; bool ok = true;
                for (size_t i = p + 2; i < p + 7; ++i) { if (s[i] < '0' || s[i] > '9') { ok = false; break; } v = v * 10 + (s[i] - '0'); }
                if (ok) return v < (int)h.ops.size() ? v : -1;
            }
            return -1;
        };
        std::map<uint16_t, int> last_pub_by_pid;   // pid -> op of the latest QoS 2 PUBLISH seen (cpkts are in seq order)
        for (auto& k : h.cpkts) {
            if (k.dec.status != ref::Status::ok) continue;
            auto& p = k.dec.pkt;
            int op = -1;
            if (p.type == ref::PUBLISH) { op = tag_op(p.topic); if (op >= 0) { op_pubs[op].push_back(k.id); if (p.qos == 2) last_pub_by_pid[p.pid] = op; } }
            else if (p.type == ref::SUBSCRIBE && !p.subs.empty()) { op = tag_op(p.subs[0].first); if (op >= 0) op_reqs[op].push_back(k.id); }
            else if (p.type == ref::UNSUBSCRIBE && !p.unsubs.empty()) { op = tag_op(p.unsubs[0]); if (op >= 0) op_reqs[op].push_back(k.id); }
            else if (p.type == ref::PUBREL) { auto it = last_pub_by_pid.find(p.pid); if (it != last_pub_by_pid.end()) { op = it->second; op_rels[op].push_back(k.id); } }
            cpkt_op[k.id] = op;
        }
        for (auto& b : h.bpkts) if (b.for_cpkt >= 0 && b.for_cpkt < (int)cpkt_acks.size()) cpkt_acks[b.for_cpkt].push_back(b.id);
    }
};

std::string op_str(const OpRec& o) {
    std::ostringstream s;
    s << "op#" << o.id << " " << op_kind_name(o.kind) << " init@" << o.t_init / 1e9 << "s";
    if (o.completions) s << " done@" << o.t_done / 1e9 << "s ec=" << ec_name(o.ec);
    return s.str();
}

ref::Props l2r_will_props(const ClientCfg& c) { return l2r::to_ref(c.will_props); }
ref::Props l2r_connect_props(const ClientCfg& c) { return l2r::to_ref(c.connect_props); }

bool is_pub12(const OpRec& o) { return o.kind == OpKind::pub1 || o.kind == OpKind::pub2; }
bool is_request(const OpRec& o) { return is_pub12(o) || o.kind == OpKind::sub || o.kind == OpKind::unsub; }

// ------------------------------------------------------------------------------------------------ C01 / C14
void mon_truthful(const Run& run, const Ix& ix, Verdicts& v, vu::Result& res) {
    const History& h = run.w->h;
    std::map<int, int> ack_used_by;   // bpkt -> op
    for (auto& o : h.ops) {
        bool pub = is_pub12(o), sub = o.kind == OpKind::sub || o.kind == OpKind::unsub;
        if (!pub && !sub) continue;
        if (!o.completions || o.ec) continue;
        const char* P = pub ? "C01" : "C14";
        res.count(pub ? "pub_success_completions" : "sub_success_completions");
        const auto& reqs = pub ? ix.op_pubs[o.id] : ix.op_reqs[o.id];
        // (a) the broker received the request, and every transmission says what the caller asked
        bool reached = false;
        for (int ci : reqs) {
            auto& k = h.cpkts[ci];
            if (k.seq > o.seq_done) continue;
            if (k.reached_broker && k.rx_seq < o.seq_done) reached = true;
            auto& p = k.dec.pkt;
            std::string df;
            if (pub) {
                if (p.topic != o.topic) df += "topic ";
                if (p.payload != o.payload) df += "payload ";
                if (p.qos != (o.kind == OpKind::pub1 ? 1 : 2)) df += "qos ";
                if (p.retain != o.retain) df += "retain ";
                if (!ref::props_equal(p.props, o.props)) df += "properties ";
            } else if (o.kind == OpKind::sub) {
                if (p.subs != o.subs) df += "filters/options ";
                if (!ref::props_equal(p.props, o.props)) df += "properties ";
            } else {
                if (p.unsubs != o.unsubs) df += "filters ";
                if (!ref::props_equal(p.props, o.props)) df += "properties ";
            }
            if (!df.empty()) v.add(P, std::string(P) + ":request-differs:" + df, op_str(o) + ": the packet on the wire differs from the call in: " + df + "| wire: " + p.str());
        }
        if (!reached) { v.add(P, std::string(P) + ":success-without-request-at-broker", op_str(o) + " completed successfully but the broker had not received its request"); continue; }
        // (b) a genuine final acknowledgement for this request, delivered before the completion, with the same id
        struct Cand { int b; };
        std::vector<int> cands;
        auto consider = [&](int ci, uint8_t want_type, bool fail_rec) {
            auto& k = h.cpkts[ci];
            for (int bi : ix.cpkt_acks[ci]) {
                auto& b = h.bpkts[bi];
                if (b.pkt.type != want_type) continue;
                if (b.kind == BKind::spurious || b.kind == BKind::hostile) continue;   // forged, wrong count, inadmissible code
                if (!b.wellformed) continue;
                if (fail_rec && b.pkt.rc < 0x80) continue;
                if (b.conn != k.conn) continue;
                if (b.delivered_t < 0 || b.delivered_seq > o.seq_done) continue;
                if (b.pkt.pid != k.dec.pkt.pid) continue;
                if (b.seq < k.rx_seq) continue;
                cands.push_back(bi);
            }
        };
        if (o.kind == OpKind::pub1) for (int ci : reqs) consider(ci, ref::PUBACK, false);
        else if (o.kind == OpKind::pub2) {
            for (int ci : ix.op_rels[o.id]) consider(ci, ref::PUBCOMP, false);
            for (int ci : reqs) consider(ci, ref::PUBREC, true);   // a failing PUBREC ends the exchange
            if (!cands.empty() && h.bpkts[cands[0]].pkt.type == ref::PUBCOMP) {
                // the PUBCOMP must have been preceded by PUBREC and PUBREL for this exchange
                bool rec = false;
                for (int ci : reqs) for (int bi : ix.cpkt_acks[ci]) { auto& b = h.bpkts[bi]; if (b.pkt.type == ref::PUBREC && b.pkt.rc < 0x80 && b.delivered_t >= 0 && b.delivered_seq < o.seq_done) rec = true; }
                if (!rec) v.add("C01", "C01:pubcomp-without-pubrec", op_str(o) + ": completed by PUBCOMP without a delivered successful PUBREC");
            }
        } else for (int ci : reqs) consider(ci, o.kind == OpKind::sub ? ref::SUBACK : ref::UNSUBACK, false);
        if (cands.empty()) {
            // tell apart: completed on a spurious / foreign acknowledgement vs no acknowledgement at all
            bool spurious_seen = false, hostile_seen = false;
            for (auto& b : h.bpkts) if (b.kind == BKind::spurious && b.delivered_t >= 0 && b.delivered_seq < o.seq_done) spurious_seen = true;
            for (int ci : reqs) for (int bi : ix.cpkt_acks[ci]) if (h.bpkts[bi].kind == BKind::hostile && h.bpkts[bi].delivered_t >= 0 && h.bpkts[bi].delivered_seq < o.seq_done) hostile_seen = true;
            if (o.kind == OpKind::pub2) for (int ci : ix.op_rels[o.id]) for (int bi : ix.cpkt_acks[ci]) if (h.bpkts[bi].kind == BKind::hostile && h.bpkts[bi].delivered_t >= 0 && h.bpkts[bi].delivered_seq < o.seq_done) hostile_seen = true;
            v.add(P, std::string(P) + (hostile_seen ? ":success-on-inadmissible-ack" : spurious_seen ? ":success-on-spurious-ack" : ":success-without-genuine-ack"),
                  op_str(o) + " completed successfully although no genuine final acknowledgement for its packet id had been delivered");
            continue;
        }
        // (c) handler values equal those of a delivered genuine acknowledgement
        bool match = false; int used = -1;
        for (int bi : cands) {
            auto& b = h.bpkts[bi];
            bool ok;
            if (pub) {
                ok = o.rcs.size() == 1 && o.rcs[0] == b.pkt.rc;
                if (b.pkt.type != ref::PUBREC) ok = ok && ref::props_equal(o.done_props, b.pkt.props);
            } else {
                ok = o.rcs == b.pkt.rcs && ref::props_equal(o.done_props, b.pkt.props);
            }
            if (ok) { match = true; used = bi; }
        }
        if (!match) {
            auto& b = h.bpkts[cands.back()];
            std::ostringstream s; s << op_str(o) << ": handler got rc=[";
            for (auto r : o.rcs) s << std::hex << int(r) << " ";
            s << "] props=" << ref::props_str(o.done_props) << " but the acknowledgement says " << b.pkt.str();
            v.add(P, std::string(P) + ":handler-values-differ", s.str());
        } else {
            // (d) an acknowledgement completes at most one operation
            auto it = ack_used_by.find(used);
            if (it != ack_used_by.end() && it->second != o.id && cands.size() == 1) v.add(P, std::string(P) + ":ack-used-twice", op_str(o) + " and op#" + std::to_string(it->second) + " were both completed by the same acknowledgement");
            ack_used_by[used] = o.id;
        }
        if (!pub) {
            // one reason code per requested topic
            size_t n = o.kind == OpKind::sub ? o.subs.size() : o.unsubs.size();
            if (o.rcs.size() != n) v.add("C14", "C14:reason-code-count", op_str(o) + ": handler received " + std::to_string(o.rcs.size()) + " reason codes for " + std::to_string(n) + " topics");
            for (auto rc : o.rcs) if (!ref::rc_listed(o.kind == OpKind::sub ? ref::SUBACK : ref::UNSUBACK, rc)) v.add("C14", "C14:inadmissible-rc-surfaced", op_str(o) + ": inadmissible reason code surfaced as success");
        }
    }
    // hostile acknowledgements must never produce success
    for (auto& b : h.bpkts) {
        if (b.kind != BKind::hostile || b.for_cpkt < 0) continue;
        if (b.pkt.type != ref::SUBACK && b.pkt.type != ref::UNSUBACK) continue;
        res.count("hostile_subacks");
    }
}

// ------------------------------------------------------------------------------------------------ C02
void mon_no_loss(const Run& run, const Ix& ix, Verdicts& v, vu::Result& res) {
    const History& h = run.w->h;
    // judged at the end of the fault-free suffix, i.e. before the final cancel
    uint64_t final_seq = 0;
    for (auto& e : h.ev) if (e.kind == Ev::note && e.s == "final phase") final_seq = e.seq;
    bool any_terminal_before_end = false;
    for (auto& e : h.ev) if (e.kind == Ev::terminal && (final_seq == 0 || e.seq < final_seq)) any_terminal_before_end = true;
    for (auto& o : h.ops) {
        if (!is_request(o)) continue;
        if (o.immediate_expected || o.signalled || o.after_terminal) continue;
        // same packet id on every transmission
        const auto& reqs = is_pub12(o) ? ix.op_pubs[o.id] : ix.op_reqs[o.id];
        std::set<uint16_t> pids;
        for (int ci : reqs) pids.insert(h.cpkts[ci].dec.pkt.pid);
        if (pids.size() > 1) v.add("C02", "C02:packet-id-changed-on-retransmission", op_str(o) + " was transmitted with different packet identifiers");
        if (reqs.size() > 1) res.count("retransmitted_requests");
        bool done_in_time = o.completions > 0 && (final_seq == 0 || o.seq_done < final_seq);
        if (done_in_time && o.ec) {
            if (is_transport_error(o.ec)) v.add("C02", "C02:completed-with-transport-error:" + ec_name(o.ec), op_str(o) + " completed with a transport error");
            else if (o.ec == ae::operation_aborted && !any_terminal_before_end) v.add("C02", "C02:aborted-without-cancellation", op_str(o) + " completed with operation_aborted although nobody cancelled it");
            else if (o.ec != ae::operation_aborted) v.add("C02", "C02:completed-with-error:" + ec_name(o.ec), op_str(o) + " failed although it had passed validation");
            continue;
        }
        if (any_terminal_before_end) continue;   // the scenario cancelled the client itself: liveness is not owed
        if (!done_in_time) {
            std::string where = reqs.empty() ? "never-transmitted" : "no-completion";
            v.add("C02", "C02:not-completed-within-bound:" + where,
                  op_str(o) + " had not completed " + std::to_string((run.sc->end - o.t_init) / SEC) + " virtual seconds after initiation although the network was fault-free at the end (" + where + ")");
        } else res.count("requests_completed");
    }
    // "A message whose acknowledgement is outstanding is retransmitted on the next connection": judged at the moment the
    // client puts a NEW QoS>0 publish on a connection. Every older QoS>0 publish of the same run that was transmitted on an
    // earlier connection and is still neither completed nor cancelled must have been retransmitted (PUBLISH or, once its
    // PUBREC was consumed, PUBREL) on this connection by then: new and retransmitted packets go through the same queue, the
    // same quota and the same sort, so nothing the client may legitimately do puts the newer one first.
    std::vector<int> first_conn(h.ops.size(), -1);
    for (auto& o : h.ops) if (is_pub12(o) && !ix.op_pubs[o.id].empty()) first_conn[o.id] = h.cpkts[ix.op_pubs[o.id][0]].conn;
    for (auto& c : h.conns) {
        bool hostile_on_conn = false;
        for (auto& b : h.bpkts) if (b.conn == c.id && (b.kind == BKind::hostile || !b.wellformed)) hostile_on_conn = true;
        if (hostile_on_conn) continue;
        std::set<int> seen_here;        // ops with a PUBLISH / PUBREL on this connection so far
        for (auto& k : h.cpkts) {
            if (k.conn != c.id || k.dec.status != ref::Status::ok) continue;
            int op = ix.cpkt_op[k.id];
            if (op < 0) continue;
            if (k.dec.pkt.type == ref::PUBREL) { seen_here.insert(op); continue; }
            if (k.dec.pkt.type != ref::PUBLISH || k.dec.pkt.qos == 0) continue;
            bool first_tx = ix.op_pubs[op][0] == k.id;
            if (first_tx && c.id > 0) {
                auto& n = h.ops[op];
                for (auto& o : h.ops) {
                    if (!is_pub12(o) || o.id == op || o.seq_init >= n.seq_init || o.incarnation != n.incarnation) continue;
                    if (o.signalled || o.immediate_expected || o.after_terminal) continue;
                    if (first_conn[o.id] < 0 || first_conn[o.id] >= c.id) continue;          // never transmitted before this connection
                    if (o.completions > 0 && o.seq_done < k.seq) continue;                    // no longer outstanding
                    res.count("outstanding_publishes_judged_at_new_publish");
                    if (seen_here.count(o.id)) continue;
                    v.add("C02", "C02:outstanding-not-retransmitted-on-next-connection",
                          "connection " + std::to_string(c.id) + ": " + op_str(n) + " was transmitted for the first time while " + op_str(o) +
                          ", transmitted on connection " + std::to_string(first_conn[o.id]) + " and still unacknowledged, had not been retransmitted on this connection");
                }
            }
            seen_here.insert(op);
        }
    }
}

// ------------------------------------------------------------------------------------------------ C03
void mon_qos2_sender(const Run& run, const Ix& ix, Verdicts& v, vu::Result& res) {
    const History& h = run.w->h;
    for (auto& o : h.ops) {
        if (!is_pub12(o)) continue;
        const auto& pubs = ix.op_pubs[o.id];
        if (pubs.empty()) continue;
        const auto& first = h.cpkts[pubs[0]];
        if (first.dec.pkt.dup) v.add("C03", "C03:dup-on-first-transmission", op_str(o) + ": first transmission carries DUP=1");
        bool earlier_written = false;
        for (size_t i = 0; i < pubs.size(); ++i) {
            auto& k = h.cpkts[pubs[i]];
            if (i > 0) {
                res.count("publish_retransmissions");
                std::string a = first.raw, b = k.raw;
                if (!a.empty()) a[0] &= ~0x08;
                if (!b.empty()) b[0] &= ~0x08;
                if (a != b) v.add("C03", k.dec.pkt.pid != first.dec.pkt.pid ? "C03:retransmission-changes-packet-id" : "C03:retransmission-not-byte-identical",
                                  op_str(o) + ": retransmitted PUBLISH differs from the first transmission beyond the DUP bit");
                if (k.dec.pkt.dup && !earlier_written) v.add("C03", "C03:dup-without-successful-earlier-write", op_str(o) + ": DUP=1 although no earlier transmission had been written successfully");
                if (!k.dec.pkt.dup && earlier_written) v.add("C03", "C03:dup-missing", op_str(o) + ": DUP=0 on a retransmission although an earlier transmission had been written successfully");
                if (k.dec.pkt.dup) res.count("dup_retransmissions");
            }
            auto& w = h.writes[k.write];
            // "written successfully" = the batch that carried it was reported successful before the next transmission is offered
            uint64_t next_seq = i + 1 < pubs.size() ? h.cpkts[pubs[i + 1]].seq : UINT64_MAX;
            if (w.done && !w.result && w.seq_end < next_seq) earlier_written = true;
        }
        if (o.kind != OpKind::pub2) continue;
        // (c') a successful PUBREC that was delivered for a transmission whose write was reported successful has been
        // consumed by the operation (the later of the two events hands it over): no PUBLISH of the exchange afterwards
        {
            uint64_t consumed_at = UINT64_MAX;
            for (int ci : pubs) {
                auto& w = h.writes[h.cpkts[ci].write];
                if (!(w.done && !w.result)) continue;
                for (int bi : ix.cpkt_acks[ci]) {
                    auto& b = h.bpkts[bi];
                    if (b.pkt.type != ref::PUBREC || b.pkt.rc >= 0x80 || b.delivered_t < 0 || !b.wellformed || b.kind != BKind::normal) continue;
                    if (b.conn != h.cpkts[ci].conn) continue;
                    // the connection must still have been alive when both had happened (else the reply is lost with it)
                    uint64_t at = std::max(b.delivered_seq, w.seq_end);
                    auto& c = h.conns[b.conn];
                    if ((c.faulted && c.seq_fault < at) || (c.t_closed >= 0 && c.seq_closed < at)) continue;
                    consumed_at = std::min(consumed_at, at);
                }
            }
            if (consumed_at != UINT64_MAX) {
                res.count("pubrec_consumed");
                // (f) ... and the exchange goes on with PUBREL: a successful PUBREC (any reason code below 0x80, e.g. 0x10 No matching
                // subscribers) does not end it
                if (o.completions && !o.ec && ix.op_rels[o.id].empty())
                    v.add("C03", "C03:no-pubrel-after-successful-pubrec", op_str(o) + ": completed successfully although no PUBREL was ever transmitted after its successful PUBREC");
                for (int ci : pubs) if (h.cpkts[ci].seq > consumed_at)
                    v.add("C03", "C03:publish-after-consumed-pubrec", op_str(o) + ": PUBLISH transmitted again although a successful PUBREC for a successfully written transmission had been delivered before");
            }
        }
        const auto& rels = ix.op_rels[o.id];
        if (rels.empty()) continue;
        res.count("qos2_reached_pubrel");
        auto& rel0 = h.cpkts[rels[0]];
        for (int ci : pubs) if (h.cpkts[ci].seq > rel0.seq) v.add("C03", "C03:publish-after-pubrel", op_str(o) + ": PUBLISH transmitted again after PUBREL had been sent (PUBREC already consumed)");
        for (int ci : rels) {
            if (h.cpkts[ci].raw != rel0.raw) v.add("C03", "C03:pubrel-not-identical", op_str(o) + ": retransmitted PUBREL differs");
            if (ci != rels[0]) res.count("pubrel_retransmissions");
        }
        // (e) "until PUBCOMP arrives": a well-formed PUBCOMP (any reason code MQTT 5 lists for it) delivered for a PUBREL whose
        // write was reported successful, on a connection still alive when both had happened, ends the exchange: no PUBREL afterwards
        {
            uint64_t ended_at = UINT64_MAX;
            for (int ci : rels) {
                auto& w = h.writes[h.cpkts[ci].write];
                if (!(w.done && !w.result)) continue;
                for (int bi : ix.cpkt_acks[ci]) {
                    auto& b = h.bpkts[bi];
                    if (b.pkt.type != ref::PUBCOMP || b.delivered_t < 0 || !b.wellformed || b.kind != BKind::normal || b.conn != h.cpkts[ci].conn) continue;
                    uint64_t at = std::max(b.delivered_seq, w.seq_end);
                    auto& c = h.conns[b.conn];
                    if ((c.faulted && c.seq_fault < at) || (c.t_closed >= 0 && c.seq_closed < at)) continue;
                    ended_at = std::min(ended_at, at);
                }
            }
            if (ended_at != UINT64_MAX) {
                res.count("pubcomp_consumed");
                for (int ci : rels) if (h.cpkts[ci].seq > ended_at)
                    v.add("C03", "C03:pubrel-after-pubcomp", op_str(o) + ": PUBREL transmitted again although the PUBCOMP for a successfully written PUBREL had been delivered before");
            }
        }
        // (d) no PUBREL before a successful PUBREC for this exchange was delivered
        bool rec = false;
        for (int ci : pubs) for (int bi : ix.cpkt_acks[ci]) { auto& b = h.bpkts[bi]; if (b.pkt.type == ref::PUBREC && b.pkt.rc < 0x80 && b.delivered_t >= 0 && b.delivered_seq < rel0.seq) rec = true; }
        if (!rec) v.add("C03", "C03:pubrel-before-pubrec", op_str(o) + ": PUBREL sent before a successful PUBREC had been delivered");
    }
}

// ------------------------------------------------------------------------------------------------ C06
void mon_order(const Run& run, const Ix& ix, Verdicts& v, vu::Result& res) {
    const History& h = run.w->h;
    for (auto& c : h.conns) {
        bool all_qos = !c.caps.receive_maximum.has_value();
        uint64_t last = 0; int last_op = -1; uint64_t shape = 0; int n = 0;
        bool hostile_on_conn = false;
        for (auto& b : h.bpkts) if (b.conn == c.id && (b.kind == BKind::hostile || !b.wellformed)) hostile_on_conn = true;
        if (hostile_on_conn) continue;
        for (auto& k : h.cpkts) {
            if (k.conn != c.id || k.dec.status != ref::Status::ok || k.dec.pkt.type != ref::PUBLISH) continue;
            int op = ix.cpkt_op[k.id];
            if (op < 0) continue;
            if (k.dec.pkt.qos == 0 && !all_qos) continue;
            auto& o = h.ops[op];
            ++n;
            shape = vu::mix(shape, (k.dec.pkt.dup ? 2 : 0) | (ix.op_pubs[op].size() > 1 && ix.op_pubs[op][0] != k.id ? 1 : 0));
            if (o.seq_init < last) {
                v.add("C06", std::string("C06:order-inversion:") + (k.dec.pkt.qos ? "qos12" : "qos0-without-receive-maximum"),
                      "connection " + std::to_string(c.id) + ": PUBLISH of " + op_str(o) + " left after the PUBLISH of op#" + std::to_string(last_op) + " which was initiated later");
            }
            if (o.seq_init == last && last_op == op) v.add("C06", "C06:publish-twice-on-one-connection", "connection " + std::to_string(c.id) + ": " + op_str(o) + " transmitted twice on the same connection");
            if (o.seq_init >= last) { last = o.seq_init; last_op = op; }
        }
        if (n >= 2) res.count("connections_with_2plus_publishes");
        (void)shape;
        if (n >= 2 && c.id > 0) res.count("ordered_retransmission_connections");
    }
}

// ------------------------------------------------------------------------------------------------ C07 / C08
void mon_quota_and_ids(const Run& run, const Ix& ix, Verdicts& v, vu::Result& res) {
    const History& h = run.w->h;
    // merged timeline of offered client packets and delivered broker packets
    struct It { uint64_t seq; int kind; int id; };   // 0 = cpkt offered, 1 = bpkt delivered, 2 = op done, 3 = idle, 4 = write begin, 5 = write end
    std::vector<It> tl;
    for (auto& k : h.cpkts) tl.push_back({k.seq, 0, k.id});
    for (auto& b : h.bpkts) if (b.delivered_t >= 0) tl.push_back({b.delivered_seq, 1, b.id});
    for (auto& o : h.ops) if (o.completions) tl.push_back({o.seq_done, 2, o.id});
    for (auto& e : h.ev) if (e.kind == Ev::idle) tl.push_back({e.seq, 3, 0});
    for (auto& w : h.writes) { tl.push_back({w.seq_begin, 4, w.id}); if (w.done) tl.push_back({w.seq_end, 5, w.id}); }
    for (auto& c : h.conns) if (c.connack_sent && c.connack_rc == 0 && !c.session_present) tl.push_back({c.seq_begin, 6, c.id});
    std::sort(tl.begin(), tl.end(), [](const It& a, const It& b) { return a.seq < b.seq; });
    std::map<int, std::set<uint16_t>> open_on_conn;     // conn -> pids counted against the quota
    std::map<uint16_t, int> id_holder;                  // pid -> op holding it (client-initiated exchanges)
    std::multimap<int, uint16_t> ids_of_op;
    std::map<uint16_t, int> wire_open;                  // pid -> op whose exchange has not seen its final acknowledgement on the wire
    std::set<int64_t> transmitted_on;                       // (conn<<20 | op) pairs
    int writes_pending = 0;
    uint64_t final_seq = UINT64_MAX;
    for (auto& e : h.ev) if (e.kind == Ev::note && e.s == "final phase") final_seq = e.seq;
    uint64_t first_terminal = UINT64_MAX;
    for (auto& e : h.ev) if (e.kind == Ev::terminal) { first_terminal = std::min(first_terminal, e.seq); }
    for (auto& t : tl) {
        if (t.kind == 4) { ++writes_pending; continue; }
        if (t.kind == 5) { if (writes_pending > 0) --writes_pending; continue; }
        if (t.kind == 0) {
            auto& k = h.cpkts[t.id];
            if (k.dec.status != ref::Status::ok) continue;
            auto& p = k.dec.pkt;
            int op = ix.cpkt_op[k.id];
            bool carries_id = (p.type == ref::PUBLISH && p.qos > 0) || p.type == ref::SUBSCRIBE || p.type == ref::UNSUBSCRIBE;
            if (carries_id) {
                if (p.pid == 0) v.add("C08", "C08:packet-id-zero", std::string(ref::type_name(p.type)) + " with packet identifier 0 on the wire");
                auto it = id_holder.find(p.pid);
                if (op >= 0) {
                    // "reusable only after its exchange completed": the previous holder reported success although the final
                    // acknowledgement of its exchange (PUBACK / PUBCOMP / failing PUBREC / SUBACK / UNSUBACK) never arrived
                    auto wo = wire_open.find(p.pid);
                    if (wo != wire_open.end() && wo->second != op) {
                        auto& prev = h.ops[wo->second];
                        if (prev.completions && !prev.ec && prev.seq_done < k.seq)
                            v.add("C08", "C08:id-reused-before-exchange-completed", "packet identifier " + std::to_string(p.pid) + " reused by " + op_str(h.ops[op]) + " although the exchange of " + op_str(prev) + " had not seen its final acknowledgement");
                        wire_open.erase(wo);
                    }
                    wire_open[p.pid] = op;
                    if (it != id_holder.end() && it->second != op) {
                        v.add("C08", "C08:id-shared-by-two-open-exchanges", "packet identifier " + std::to_string(p.pid) + " used by " + op_str(h.ops[op]) + " while " + op_str(h.ops[it->second]) + " still holds it");
                    }
                    if (it == id_holder.end() || it->second != op) ids_of_op.emplace(op, p.pid);
                    id_holder[p.pid] = op;
                    res.maxi("max_ids_in_use", id_holder.size());
                }
            }
            if ((p.type == ref::PUBLISH && p.qos > 0) || p.type == ref::PUBREL) {
                auto& c = h.conns[k.conn];
                auto& open = open_on_conn[k.conn];
                if (op >= 0) transmitted_on.insert((int64_t(k.conn) << 24) | op);
                if (c.caps.receive_maximum) {
                    unsigned rm = *c.caps.receive_maximum;
                    bool counts = !open.count(p.pid);
                    if (counts) {
                        if (open.size() >= rm) {
                            v.add("C07", std::string("C07:receive-maximum-exceeded:") + (p.type == ref::PUBLISH ? "publish" : "resumed-pubrel"),
                                  "connection " + std::to_string(k.conn) + " (Receive Maximum " + std::to_string(rm) + "): " + ref::type_name(p.type) + " id " + std::to_string(p.pid) +
                                      " offered while " + std::to_string(open.size()) + " exchanges are open");
                        }
                        open.insert(p.pid);
                        if (open.size() == rm) res.count("quota_saturations");
                    }
                }
            }
            continue;
        }
        if (t.kind == 1) {
            auto& b = h.bpkts[t.id];
            if (!b.wellformed) continue;
            bool frees = b.pkt.type == ref::PUBACK || b.pkt.type == ref::PUBCOMP || (b.pkt.type == ref::PUBREC && b.pkt.rc >= 0x80);
            if (frees) open_on_conn[b.conn].erase(b.pkt.pid);
            if (frees || b.pkt.type == ref::SUBACK || b.pkt.type == ref::UNSUBACK) wire_open.erase(b.pkt.pid);
            continue;
        }
        if (t.kind == 6) { wire_open.clear(); continue; }    // the session was lost: the Server holds no exchange of it any more
        if (t.kind == 2) {
            if (h.ops[t.id].ec) for (auto it = wire_open.begin(); it != wire_open.end();) { if (it->second == t.id) it = wire_open.erase(it); else ++it; }   // abandoned by the client
            { auto r = ids_of_op.equal_range(t.id); for (auto it = r.first; it != r.second; ++it) { auto h2 = id_holder.find(it->second); if (h2 != id_holder.end() && h2->second == t.id) id_holder.erase(h2); } ids_of_op.erase(t.id); }
            continue;
        }
        if (t.kind == 3) {
            // progress: at an idle point on an established, healthy connection with nothing pending at the transport and
            // quota available, no accepted publish may still be waiting
            if (t.seq > final_seq || t.seq > first_terminal || writes_pending) continue;
            const ConnRec* cur = nullptr;
            for (auto& c : h.conns) if (c.established && c.seq_established < t.seq && (c.t_closed < 0 || c.seq_closed > t.seq) && (!c.faulted || c.seq_fault > t.seq)) cur = &c;
            if (!cur || !cur->caps.receive_maximum) continue;
            // any later connection activity means this one is being replaced
            bool newer = false;
            for (auto& c : h.conns) if (c.id > cur->id && c.seq_begin < t.seq) newer = true;
            if (newer) continue;
            bool hostile = false;
            for (auto& b : h.bpkts) if (b.conn == cur->id && (b.kind == BKind::hostile || !b.wellformed)) hostile = true;
            if (hostile) continue;
            if (open_on_conn[cur->id].size() >= *cur->caps.receive_maximum) continue;
            for (auto& o : h.ops) {
                if (!is_pub12(o) || o.immediate_expected || o.signalled || o.after_terminal) continue;
                if (o.seq_init > t.seq || (o.completions && o.seq_done < t.seq)) continue;
                if (transmitted_on.count((int64_t(cur->id) << 24) | o.id)) continue;
                v.add("C07", "C07:throttled-publish-starved", op_str(o) + " is still not transmitted on connection " + std::to_string(cur->id) + " at an idle point (t=" +
                                                                  std::to_string(h.ev.empty() ? 0 : 0) + ") with " + std::to_string(open_on_conn[cur->id].size()) + " of " +
                                                                  std::to_string(*cur->caps.receive_maximum) + " quota in use and no write pending");
            }
            res.count("progress_points_checked");
        }
    }
}

// ------------------------------------------------------------------------------------------------ C05
void mon_completion(const Run& run, const Ix&, Verdicts& v, vu::Result& res) {
    const History& h = run.w->h;
    bool aborted_run = run.out.exception || run.out.hang || run.out.harness_failure;
    for (auto& o : h.ops) {
        if (o.completions > 1) v.add("C05", std::string("C05:completed-twice:") + op_kind_name(o.kind), op_str(o) + ": handler invoked " + std::to_string(o.completions) + " times");
        if (o.dropped && !aborted_run) v.add("C05", std::string("C05:handler-destroyed-uninvoked:") + op_kind_name(o.kind), op_str(o) + ": handler destroyed without being invoked");
        if (o.completions && o.depth_at_done > 0) v.add("C05", std::string("C05:completed-inside-initiation:") + op_kind_name(o.kind), op_str(o) + ": handler invoked from inside an initiating call");
        // a request issued on a client that was not running belongs to the next async_run: owed only if there was one
        bool owed = !o.after_terminal;
        if (o.after_terminal) for (auto& r : h.ops) if (r.kind == OpKind::run && r.seq_init > o.seq_init) owed = true;
        if (!o.completions && !o.dropped && !aborted_run && run.sc->final_cancel && owed)
            v.add("C05", std::string("C05:never-completed:") + op_kind_name(o.kind), op_str(o) + ": handler never invoked although the client was cancelled and destroyed");
        if (o.completions == 1) res.count("ops_completed_once");
    }
    // drain after every terminal action
    for (auto& e : h.ev) {
        if (e.kind == Ev::not_stopped && !aborted_run) v.add("C05", "C05:context-not-drained", "after the terminal action the execution context still had work (" + std::to_string(e.a) + " stream operations pending) without the clock advancing");
        if (e.kind == Ev::stopped) res.count("drain_checks_passed");
    }
    // completion codes after a terminal action
    struct Term { uint64_t seq; int kind; };
    std::vector<Term> terms;
    for (auto& e : h.ev) if (e.kind == Ev::terminal) terms.push_back({e.seq, e.b});
    for (auto& o : h.ops) {
        if (!o.completions || o.after_terminal) continue;
        // first terminal after initiation and before completion
        const Term* t = nullptr;
        for (auto& x : terms) if (x.seq > o.seq_init && x.seq < o.seq_done) { t = &x; break; }
        if (!t) continue;
        res.count("ops_completed_after_terminal");
        if (o.kind == OpKind::disconnect) continue;
        bool ok = o.ec == ae::operation_aborted;
        if (o.immediate_expected) ok = true;
        if (o.kind == OpKind::recv) ok = ok || !o.ec || o.ec == mqe::error::session_expired;
        if (t->kind == 1) ok = ok || !o.ec;   // between initiation and completion of async_disconnect normal completions are allowed
        if (!ok && is_request(o) && !o.ec) {
            // a genuine acknowledgement may have been processed in the same drain as the terminal call
            ok = true;
        }
        if (!ok) v.add("C05", std::string("C05:wrong-code-after-terminal:") + op_kind_name(o.kind) + ":" + ec_name(o.ec), op_str(o) + " completed with " + ec_name(o.ec) + " after the terminal action");
    }
}

// ------------------------------------------------------------------------------------------------ C13
void mon_session_expired(const Run& run, const Ix&, Verdicts& v, vu::Result& res) {
    const History& h = run.w->h;
    struct It { uint64_t seq; int kind; int id; };   // 0 = sub done, 1 = handshake done (established), 2 = recv done
    std::vector<It> tl;
    for (auto& o : h.ops) {
        if (!o.completions) continue;
        if (o.kind == OpKind::sub) tl.push_back({o.seq_done, 0, o.id});
        if (o.kind == OpKind::recv) tl.push_back({o.seq_done, 2, o.id});
    }
    for (auto& c : h.conns) if (c.established) tl.push_back({c.seq_established, 1, c.id});
    std::sort(tl.begin(), tl.end(), [](const It& a, const It& b) { return a.seq < b.seq; });
    bool subscribed = false; int owed = 0; int owed_conn = -1;
    for (auto& t : tl) {
        if (t.kind == 0) {
            auto& o = h.ops[t.id];
            bool success = false;
            if (!o.ec) for (auto rc : o.rcs) if (rc < 0x80) success = true;
            if (success) subscribed = true;
        } else if (t.kind == 1) {
            auto& c = h.conns[t.id];
            if (owed > 0) {
                // the previous report was never delivered before the next handshake: tolerated only if the client was cancelled meanwhile
                bool term = false;
                for (auto& e : h.ev) if (e.kind == Ev::terminal && e.seq < t.seq) term = true;
                if (!term) v.add("C13", "C13:session-expired-missing", "session lost on connection " + std::to_string(owed_conn) + " with a successful subscription, but no session_expired was delivered before the next handshake");
                owed = 0;
            }
            if (!c.session_present) { res.count("handshakes_session_absent"); if (subscribed) { owed = 1; owed_conn = c.id; subscribed = false; res.count("session_losses_with_subscription"); } }
            else res.count("handshakes_session_present");
        } else {
            auto& o = h.ops[t.id];
            if (o.ec == mqe::error::session_expired) {
                if (owed > 0) { --owed; res.count("session_expired_delivered"); }
                else v.add("C13", "C13:session-expired-unexpected", op_str(o) + ": session_expired delivered although no session with a successful subscription had been lost (or it had been reported already)");
            } else if (!o.ec && owed > 0) {
                // a message of the new session overtook the report?
                for (auto& b : h.bpkts)
                    if (b.conn == owed_conn && b.pkt.type == ref::PUBLISH && b.pkt.topic == o.r_topic)
                        v.add("C13", "C13:message-before-session-expired", op_str(o) + ": a message of the new session was delivered ahead of the session_expired report");
            }
        }
    }
    if (owed > 0) {
        bool term = false; uint64_t lost_seq = h.conns[owed_conn].seq_established;
        for (auto& e : h.ev) if (e.kind == Ev::terminal && e.seq > lost_seq) term = true;
        bool recv_armed_after = false;
        for (auto& o : h.ops) if (o.kind == OpKind::recv && (o.completions == 0 || o.seq_done > lost_seq)) recv_armed_after = true;
        uint64_t final_seq = 0;
        for (auto& e : h.ev) if (e.kind == Ev::note && e.s == "final phase") final_seq = e.seq;
        bool term_before_final = false;
        for (auto& e : h.ev) if (e.kind == Ev::terminal && e.seq > lost_seq && (final_seq == 0 || e.seq < final_seq)) term_before_final = true;
        (void)term;
        if (recv_armed_after && !term_before_final && run.sc->end - h.conns[owed_conn].t_established > 2 * SEC)
            v.add("C13", "C13:session-expired-missing", "session lost on connection " + std::to_string(owed_conn) + " with a successful subscription, but no session_expired reached async_receive");
    }
}


// ------------------------------------------------------------------------------------------------ C04
void mon_inbound(const Run& run, const Ix&, Verdicts& v, vu::Result& res) {
    const History& h = run.w->h;
    const auto& out = run.broker->out;
    uint64_t final_seq = UINT64_MAX; vt final_t = run.out.t_end;
    for (auto& e : h.ev) if (e.kind == Ev::note && e.s == "final phase") final_seq = e.seq;
    uint64_t first_terminal = UINT64_MAX; vt first_terminal_t = INT64_MAX;
    for (auto& e : h.ev) if (e.kind == Ev::terminal && e.seq < first_terminal) { first_terminal = e.seq; first_terminal_t = e.t; }
    auto conn_hostile = [&](int cid) { for (auto& b : h.bpkts) if (b.conn == cid && (b.kind == BKind::hostile || b.kind == BKind::spurious || !b.wellformed)) return true; return false; };
    auto healthy_until = [&](const ConnRec& c, vt t) {
        if (c.faulted && c.t_fault <= t) return false;
        if (c.t_closed >= 0 && c.t_closed <= t) return false;
        if (first_terminal_t <= t) return false;
        if (final_t < t) return false;
        return true;
    };
    // (a0) a well-formed PUBLISH / PUBREL of a conformant broker is never answered with "malformed packet" / "protocol error"
    for (auto& k : h.cpkts) {
        if (k.dec.status != ref::Status::ok || k.dec.pkt.type != ref::DISCONNECT || (k.dec.pkt.rc != 0x81 && k.dec.pkt.rc != 0x82)) continue;
        if (conn_hostile(k.conn)) continue;
        bool by_user = false;
        for (auto& o : h.ops) if (o.kind == OpKind::disconnect && o.disc_rc == k.dec.pkt.rc && o.seq_init < k.seq) by_user = true;
        if (by_user) continue;
        const BPacket* last = nullptr; uint32_t limit = 0;
        for (auto& b : h.bpkts) if (b.conn == k.conn && b.delivered_t >= 0 && b.delivered_seq < k.seq && (!last || b.delivered_seq > last->delivered_seq)) last = &b;
        for (auto& q : h.cpkts) if (q.conn == k.conn && q.dec.status == ref::Status::ok && q.dec.pkt.type == ref::CONNECT) for (auto& x : q.dec.pkt.props) if (x.id == 0x27) limit = (uint32_t)x.num;
        // the rejected packet is the last one read completely or, when the header alone made the client give up, the one in transit
        const BPacket* next = nullptr;
        for (auto& b : h.bpkts) if (b.conn == k.conn && b.seq < k.seq && (b.delivered_t < 0 || b.delivered_seq > k.seq) && (!next || b.seq < next->seq)) next = &b;
        if (next && (next->pkt.type == ref::PUBLISH || next->pkt.type == ref::PUBREL) && next->wellformed) last = next;
        if (!last || (last->pkt.type != ref::PUBLISH && last->pkt.type != ref::PUBREL)) continue;
        bool over = false;    // anything above what the client said it accepts: not a conformant stream
        for (auto& b : h.bpkts) if (b.conn == k.conn && b.seq < k.seq && b.raw.size() > (limit ? limit : 65536u)) over = true;
        if (over) continue;
        std::string rs; for (auto& x : k.dec.pkt.props) if (x.id == 0x1F) rs = x.s1;
        v.add("C04", std::string("C04:conformant-") + ref::type_name(last->pkt.type) + "-rejected-as-malformed", "connection " + std::to_string(k.conn) + ": the client answered a well-formed " + ref::type_name(last->pkt.type) +
              " (" + std::to_string(last->raw.size()) + " bytes, QoS " + std::to_string(last->pkt.qos) + ", client's Maximum Packet Size " + (limit ? std::to_string(limit) : std::string("unset")) + ") with DISCONNECT 0x" + vu::hex(std::string(1, char(k.dec.pkt.rc))) + " \"" + rs + "\"");
    }
    for (auto& b : h.bpkts) if (b.delivered_t >= 0 && b.pkt.type == ref::PUBLISH && b.wellformed && b.kind == BKind::normal) {
        uint32_t limit = 0;
        for (auto& q : h.cpkts) if (q.conn == b.conn && q.dec.status == ref::Status::ok && q.dec.pkt.type == ref::CONNECT) for (auto& x : q.dec.pkt.props) if (x.id == 0x27) limit = (uint32_t)x.num;
        if (limit && b.raw.size() == limit) res.count("inbound_publishes_exactly_at_client_limit");
        else if (limit && b.raw.size() + 5 >= limit) res.count("inbound_publishes_just_below_client_limit");
    }
    // (a) every delivered PUBLISH / PUBREL is answered on a connection that stays healthy
    for (auto& b : h.bpkts) {
        if (b.delivered_t < 0 || !b.wellformed || b.kind == BKind::hostile || b.kind == BKind::spurious) continue;
        bool pub = b.pkt.type == ref::PUBLISH && b.pkt.qos > 0, rel = b.pkt.type == ref::PUBREL;
        if (!pub && !rel) continue;
        auto& c = h.conns[b.conn];
        if (conn_hostile(c.id)) continue;
        if (!healthy_until(c, b.delivered_t + 5 * SEC)) continue;
        uint8_t want = rel ? ref::PUBCOMP : (b.pkt.qos == 1 ? ref::PUBACK : ref::PUBREC);
        bool answered = false;
        for (auto& k : h.cpkts)
            if (k.conn == b.conn && k.seq > b.delivered_seq && k.dec.status == ref::Status::ok && k.dec.pkt.type == want && k.dec.pkt.pid == b.pkt.pid && k.t <= b.delivered_t + 5 * SEC) { answered = true; break; }
        res.count(rel ? "pubrels_delivered" : "inbound_publishes_delivered");
        if (answered) continue;
        if (rel) {
            // which situation: first PUBREL of the exchange on this connection, or a retransmission after the client had already sent PUBCOMP
            bool client_completed_before = false;
            for (auto& k : h.cpkts) if (k.seq < b.delivered_seq && k.dec.status == ref::Status::ok && k.dec.pkt.type == ref::PUBCOMP && k.dec.pkt.pid == b.pkt.pid) client_completed_before = true;
            bool session_resumed = c.session_present;
            std::string cls = b.kind == BKind::retransmit ? (client_completed_before ? "retransmitted-after-client-sent-pubcomp" : "retransmitted-before-client-sent-pubcomp") : "first-transmission";
            if (!session_resumed) cls += ":session-not-resumed";
            if (!client_completed_before) {
                // did the client's PUBREC reach the broker although the write that carried it was reported failed?
                const CPacket* rec = nullptr;
                for (auto& k : h.cpkts) if (k.seq < b.delivered_seq && k.dec.status == ref::Status::ok && k.dec.pkt.type == ref::PUBREC && k.dec.pkt.pid == b.pkt.pid) rec = &k;
                if (rec && rec->reached_broker) { auto& w = h.writes[rec->write]; if (w.done && w.result) cls += ":pubrec-reached-broker-but-write-reported-failed"; }
            }
            v.add("C04", "C04:pubrel-unanswered:" + cls, "PUBREL id " + std::to_string(b.pkt.pid) + " delivered on connection " + std::to_string(b.conn) + " at " + std::to_string(b.delivered_t / 1e9) + "s was not answered by PUBCOMP within 5 s on a healthy connection (" + cls + ")");
        } else {
            v.add("C04", std::string("C04:publish-unacknowledged:qos") + char('0' + b.pkt.qos) + (b.kind == BKind::retransmit ? ":retransmission" : ""),
                  "PUBLISH id " + std::to_string(b.pkt.pid) + " delivered on connection " + std::to_string(b.conn) + " at " + std::to_string(b.delivered_t / 1e9) + "s was not acknowledged within 5 s on a healthy connection");
        }
    }
    // (b) acknowledgements only in response: per connection and packet id
    for (auto& c : h.conns) {
        if (conn_hostile(c.id)) continue;
        std::map<uint16_t, int> pub1, pub2, rels, comps;   // delivered counts / sent counts
        struct It { uint64_t seq; bool from_broker; int id; };
        std::vector<It> tl;
        for (auto& b : h.bpkts) if (b.conn == c.id && b.delivered_t >= 0) tl.push_back({b.delivered_seq, true, b.id});
        for (auto& k : h.cpkts) if (k.conn == c.id && k.dec.status == ref::Status::ok) tl.push_back({k.seq, false, k.id});
        std::sort(tl.begin(), tl.end(), [](const It& a, const It& b) { return a.seq < b.seq; });
        for (auto& t : tl) {
            if (t.from_broker) {
                auto& p = h.bpkts[t.id].pkt;
                if (p.type == ref::PUBLISH && p.qos == 1) pub1[p.pid]++;
                if (p.type == ref::PUBLISH && p.qos == 2) pub2[p.pid]++;
                if (p.type == ref::PUBREL) rels[p.pid]++;
            } else {
                auto& p = h.cpkts[t.id].dec.pkt;
                if (p.type == ref::PUBACK && !pub1[p.pid]) v.add("C04", "C04:puback-without-publish", "connection " + std::to_string(c.id) + ": PUBACK id " + std::to_string(p.pid) + " although no QoS 1 PUBLISH with that id had been delivered");
                if (p.type == ref::PUBREC && !pub2[p.pid]) v.add("C04", "C04:pubrec-without-publish", "connection " + std::to_string(c.id) + ": PUBREC id " + std::to_string(p.pid) + " although no QoS 2 PUBLISH with that id had been delivered");
                if (p.type == ref::PUBCOMP) {
                    if (comps[p.pid] >= rels[p.pid]) v.add("C04", rels[p.pid] ? "C04:more-pubcomp-than-pubrel" : "C04:pubcomp-before-pubrel", "connection " + std::to_string(c.id) + ": PUBCOMP id " + std::to_string(p.pid) + " without a (further) delivered PUBREL");
                    comps[p.pid]++;
                }
            }
        }
    }
    // (c) deliveries to the application
    std::vector<int> count(out.size(), 0);
    std::vector<uint64_t> first_delivery(out.size(), 0);
    for (auto& o : h.ops) {
        if (o.kind != OpKind::recv || !o.completions || o.ec) continue;
        int mid = -1;
        if (o.r_topic.rfind("in/", 0) == 0) { size_t e = o.r_topic.find('/', 3); if (e != std::string::npos) mid = atoi(o.r_topic.substr(3, e - 3).c_str()); }
        if (o.r_topic.rfind("in/hostile/", 0) == 0) continue;   // part of a hostile byte stream, not a broker-model message
        if (mid < 0 || mid >= (int)out.size()) { if (!run.broker->out.empty() || o.r_topic.rfind("in/", 0) == 0) v.add("C04", "C04:unknown-message-delivered", op_str(o) + ": delivered a message the broker never sent: " + o.r_topic); continue; }
        auto& m = out[mid];
        if (!count[mid]) first_delivery[mid] = o.seq_done;
        count[mid]++;
        res.count("app_deliveries");
        std::string df;
        if (o.r_topic != m.topic) df += "topic ";
        if (o.r_payload != m.payload) df += "payload ";
        if (!ref::props_equal(o.r_props, m.props)) df += "properties ";
        if (!df.empty()) v.add("C04", "C04:delivered-message-differs:" + df, op_str(o) + ": delivered message differs from what the broker sent in: " + df);
    }
    for (auto& m : out) {
        if (m.qos == 2 && count[m.id] > 1) v.add("C04", "C04:qos2-delivered-twice", "QoS 2 message " + m.topic + " handed to the application " + std::to_string(count[m.id]) + " times");
        if (m.qos == 0 && count[m.id] > 1) v.add("C04", "C04:qos0-delivered-twice", "QoS 0 message " + m.topic + " handed to the application " + std::to_string(count[m.id]) + " times");
        if (m.qos == 2 && count[m.id] == 1 && m.pub_bpkts.size() > 1) res.count("qos2_retransmitted_delivered_once");
        int ack = m.qos == 1 ? m.ack_cpkt : m.qos == 2 ? m.comp_cpkt : -1;
        if (ack < 0) continue;
        auto& k = h.cpkts[ack];
        // lower bounds are owed only if the application kept receiving for a while after the acknowledgement
        if (k.rx_t + 1 * SEC > std::min(final_t, first_terminal_t)) continue;
        res.count("acked_inbound_messages");
        if (count[m.id] == 0) {
            auto& w = h.writes[k.write];
            bool failed_write = w.done && w.result && k.reached_broker;
            // was the PUBREL of this exchange consumed by a left-over exchange of a lost session that used the same packet id?
            bool stale = false;
            // (the older exchange x used the same id, a session was lost between the two first transmissions, and x's message
            // came out of async_receive only after this message had been sent: x's waiter answered this exchange's PUBREL)
            auto first_tx = [&](const OutMsg& q) { for (int b : q.pub_bpkts) if (b >= 0) return b; return -1; };   // (-1: offered to a dead connection)
            if (m.qos == 2 && first_tx(m) >= 0)
                for (auto& x : out) {
                    if (x.id == m.id || x.qos != 2 || x.pid != m.pid || !count[x.id] || first_tx(x) < 0) continue;
                    uint64_t sx = h.bpkts[first_tx(x)].seq, sm = h.bpkts[first_tx(m)].seq;
                    if (sx >= sm || first_delivery[x.id] <= sm) continue;
                    bool lost_between = x.st == OutMsg::abandoned;
                    for (auto& c : h.conns) if (c.connack_sent && c.connack_rc == 0 && !c.session_present && c.seq_begin > sx && c.seq_begin < sm) lost_between = true;
                    if (lost_between) stale = true;
                }
            if (stale) failed_write = false;
            v.add("C04", std::string("C04:acknowledged-but-never-delivered:qos") + char('0' + m.qos) + (failed_write ? ":ack-reached-broker-but-write-reported-failed" : "") +
                             (stale ? ":pubrel-consumed-by-stale-exchange-of-lost-session" : ""),
                  "message " + m.topic + " (QoS " + std::to_string(m.qos) + ") was acknowledged to the broker (" + ref::type_name(k.dec.pkt.type) + " received at " + std::to_string(k.rx_t / 1e9) + "s) but never reached async_receive" +
                      (failed_write ? "; the write that carried the acknowledgement was reported failed after all its bytes had left" : ""));
        }
    }
    // (d) order per QoS level: first deliveries follow the broker's first-send order
    for (int q = 0; q < 3; ++q) {
        uint64_t last = 0; int last_id = -1;
        for (auto& m : out) {
            if (m.qos != q || !count[m.id] || m.pub_bpkts.empty()) continue;
            if (m.st == OutMsg::abandoned) continue;   // its session was lost: no ordering is owed relative to the new session
            {   // the same when the session was lost between the broker's first transmission and the (late) delivery: handing over a
                // message of a lost session is the defect of F7 / F10, reported under their own keys, not an ordering question
                bool lost_between = false;
                if (m.pub_bpkts[0] >= 0) { uint64_t s0 = h.bpkts[m.pub_bpkts[0]].seq; for (auto& c : h.conns) if (c.connack_sent && c.connack_rc == 0 && !c.session_present && c.seq_begin > s0 && c.seq_begin < first_delivery[m.id]) lost_between = true; }
                if (lost_between) { res.count("late_deliveries_from_a_lost_session"); continue; }
            }
            if (first_delivery[m.id] < last) v.add("C04", std::string("C04:delivery-order:qos") + char('0' + q), "message " + m.topic + " was delivered before message #" + std::to_string(last_id) + " of the same QoS which the broker sent first");
            else { last = first_delivery[m.id]; last_id = m.id; }
        }
    }
}

// DISCONNECTs the library sends on its own account carry one of its fixed reason strings
bool library_own_disconnect(const ref::Packet& p) {
    if (p.type != ref::DISCONNECT || (p.rc != 0x80 && p.rc != 0x81 && p.rc != 0x82)) return false;
    for (auto& x : p.props) if (x.id == 0x1F)
        for (const char* pre : {"Re-authentication", "Malformed", "No reply received", "Unexpected AUTH", "Unexpected"}) if (x.s1.rfind(pre, 0) == 0) return true;
    return false;
}

// ... or without its reason string, which the library drops when the packet would exceed a small Maximum Packet Size of the broker
bool library_own_disconnect(const ref::Packet& p, const ConnRec& c) {
    if (library_own_disconnect(p)) return true;
    return p.type == ref::DISCONNECT && (p.rc == 0x80 || p.rc == 0x81 || p.rc == 0x82) && p.props.empty() && c.caps.maximum_packet_size && *c.caps.maximum_packet_size < 64;
}

// ------------------------------------------------------------------------------------------------ C09
void mon_disconnect(const Run& run, const Ix&, Verdicts& v, vu::Result& res) {
    const History& h = run.w->h;
    for (auto& d : h.ops) {
        if (d.kind != OpKind::disconnect) continue;
        res.count("disconnects");
        uint64_t s0 = d.seq_init; vt t0 = d.t_init;
        uint64_t s_done = d.completions ? d.seq_done : UINT64_MAX;
        if (d.completions && d.t_done - t0 > 5 * SEC) v.add("C09", "C09:slower-than-5s", op_str(d) + ": async_disconnect completed " + std::to_string((d.t_done - t0) / 1e9) + " s after initiation");
        if (!d.completions && run.out.t_end - t0 > 5 * SEC + 1 * MS && !run.out.exception && !run.out.hang) v.add("C09", "C09:not-completed-within-5s", op_str(d) + ": async_disconnect had not completed 5 s after initiation");
        if (d.immediate_expected) continue;
        // expected contents
        auto is_expected_disconnect = [&](const ref::Packet& p, const ConnRec& c) {
            if (p.type != ref::DISCONNECT || p.rc != d.disc_rc) return false;
            if (ref::props_equal(p.props, d.props)) return true;
            // properties may be dropped when the packet would exceed the broker's Maximum Packet Size
            if (c.caps.maximum_packet_size && p.props.empty()) { ref::Packet full; full.type = ref::DISCONNECT; full.rc = d.disc_rc; full.props = d.props; return ref::encode(full).size() > *c.caps.maximum_packet_size; }
            return false;
        };
        // an async_run issued after the call starts the next incarnation: its connections and traffic are not this disconnect's
        uint64_t next_run = UINT64_MAX;
        for (auto& o : h.ops) if (o.kind == OpKind::run && o.seq_init > s0) { next_run = o.seq_init; break; }
        bool sent_somewhere = false;
        for (auto& c : h.conns) {
            if (c.t_closed >= 0 && c.seq_closed < s0) continue;     // gone before the call
            if (c.seq_begin > s_done) continue;                     // after completion: judged below
            if (c.seq_begin > next_run) continue;                   // opened by the next incarnation
            bool hostile = false;
            for (auto& b : h.bpkts) if (b.conn == c.id && (b.kind == BKind::hostile || !b.wellformed)) hostile = true;
            if (hostile) continue;
            // packets offered on this connection after the call, write by write
            bool seen_disconnect = false;
            for (auto& w : h.writes) {
                if (w.conn != c.id || w.during_handshake) continue;
                if (w.seq_begin < s0) continue;                     // the write already in progress (or earlier ones)
                std::vector<const CPacket*> pk;
                for (int ci : w.pkts) pk.push_back(&h.cpkts[ci]);
                if (seen_disconnect) { v.add("C09", "C09:bytes-after-disconnect", "connection " + std::to_string(c.id) + ": something was written after the DISCONNECT of " + op_str(d)); continue; }
                bool has = false;
                for (auto* k : pk) if (k->dec.status == ref::Status::ok && k->dec.pkt.type == ref::DISCONNECT) has = true;
                if (!has) { v.add("C09", "C09:packet-ahead-of-disconnect", "connection " + std::to_string(c.id) + ": " + (pk.empty() ? std::string("bytes") : std::string(ref::type_name(pk[0]->dec.pkt.type))) + " written after async_disconnect was initiated, ahead of the DISCONNECT"); continue; }
                if (pk.size() != 1) v.add("C09", "C09:disconnect-not-alone", "connection " + std::to_string(c.id) + ": DISCONNECT batched with " + std::to_string(pk.size() - 1) + " other packet(s)");
                else if (!is_expected_disconnect(pk[0]->dec.pkt, c) && library_own_disconnect(pk[0]->dec.pkt, c) && pk[0]->dec.pkt.rc != d.disc_rc) {
                    // a DISCONNECT the library had decided on itself (failed re-authentication, malformed packet, no reply for 20 s)
                    // and that was queued ahead of the application's: not this operation's packet
                    res.count("library_own_disconnects_ahead_of_the_call");
                }
                else if (!is_expected_disconnect(pk[0]->dec.pkt, c)) v.add("C09", "C09:disconnect-contents", "connection " + std::to_string(c.id) + ": DISCONNECT differs from the request: " + pk[0]->dec.pkt.str());
                seen_disconnect = true; sent_somewhere = true;
            }
        }
        if (sent_somewhere) res.count("disconnects_on_the_wire");
        // ... and the DISCONNECT is written whenever there was a connection to write it on: a connection of this incarnation that
        // was established at least one (virtual) second before the operation completed and stayed healthy during that second
        if (d.completions && !sent_somewhere) {
            for (auto& c : h.conns) {
                if (!c.established || c.seq_begin > next_run || c.t_established + 1 * SEC > d.t_done) continue;
                if (c.t_closed >= 0 && c.t_closed < std::max(t0, c.t_established) + 1 * SEC && c.closed_by != "client") continue;
                if (c.faulted && c.t_fault < std::max(t0, c.t_established) + 1 * SEC) continue;
                if (c.t_closed >= 0 && c.seq_closed < s0) continue;
                bool hostile = false;
                for (auto& b : h.bpkts) if (b.conn == c.id && (b.kind == BKind::hostile || b.kind == BKind::spurious || !b.wellformed || b.pkt.type == ref::DISCONNECT)) hostile = true;
                if (hostile) continue;
                // the library ended this connection with a DISCONNECT of its own (failed re-authentication, no reply for 20 s, ...):
                // nothing may follow that packet, so the application's DISCONNECT had no place on it
                bool own = false;
                for (auto& k : h.cpkts) if (k.conn == c.id && k.dec.status == ref::Status::ok && k.dec.pkt.type == ref::DISCONNECT && library_own_disconnect(k.dec.pkt, c) && k.dec.pkt.rc != d.disc_rc) own = true;
                if (own) { res.count("connections_ended_by_library_own_disconnect"); continue; }
                v.add("C09", "C09:disconnect-never-written", op_str(d) + ": completed without a DISCONNECT on the wire although connection " + std::to_string(c.id) + " was established at " + std::to_string(c.t_established / 1e9) + " s and healthy");
                break;
            }
        }
        // other outstanding operations
        for (auto& o : h.ops) {
            if (o.id == d.id || o.seq_init > s0 || (o.completions && o.seq_done < s0)) continue;
            if (!d.completions) continue;
            if (!o.completions) { if (!o.after_terminal) v.add("C09", std::string("C09:operation-left-pending:") + op_kind_name(o.kind), op_str(o) + " still pending after async_disconnect completed"); continue; }
            if (o.ec && o.ec != ae::operation_aborted && !o.immediate_expected && !(o.kind == OpKind::recv && o.ec == mqe::error::session_expired))
                v.add("C09", std::string("C09:wrong-code:") + op_kind_name(o.kind) + ":" + ec_name(o.ec), op_str(o) + " completed with " + ec_name(o.ec) + " during async_disconnect");
        }
        // silence afterwards, until async_run is called again
        if (d.completions) {
            uint64_t until = next_run;
            for (auto& e : h.ev) {
                if (e.seq <= s_done || e.seq >= until) continue;
                if (e.kind == Ev::write_begin || e.kind == Ev::connect_begin || e.kind == Ev::resolve_begin)
                    v.add("C09", std::string("C09:activity-after-disconnect:") + ev_name(e.kind), std::string(ev_name(e.kind)) + " at " + std::to_string(e.t / 1e9) + "s after async_disconnect had completed and before async_run");
            }
            res.count("disconnects_completed");
        }
    }
}

// ------------------------------------------------------------------------------------------------ C10 / C11(b)
void mon_connect(const Run& run, const Ix&, Verdicts& v, vu::Result& res) {
    const History& h = run.w->h;
    uint64_t reconf_seq = UINT64_MAX;
    for (auto& e : h.ev) if (e.kind == Ev::note && e.s == "script: reconfigure") { reconf_seq = e.seq; break; }
    for (auto& c : h.conns) {
        if (!c.tcp_ok) continue;
        std::vector<const CPacket*> pk;
        for (auto& k : h.cpkts) if (k.conn == c.id) pk.push_back(&k);
        if (pk.empty()) continue;
        // a malformed handshake is abandoned: when the first thing the broker sent on this connection is a CONNACK-typed packet the
        // independent decoder rejects for its structure (reserved bits set, bytes left over inside the Remaining Length, ...)
        // the connection must not become the client's live connection
        {
            const BPacket* fb = nullptr;
            for (auto& b : h.bpkts) if (b.conn == c.id) { fb = &b; break; }
            if (fb && !fb->wellformed && !fb->raw.empty() && (uint8_t(fb->raw[0]) >> 4) == 2 && fb->delivered_t >= 0) {
                res.count("malformed_connacks_delivered");
                if (c.established) v.add("C10", "C10:malformed-connack-accepted", "connection " + std::to_string(c.id) + ": the handshake was completed on a malformed CONNACK: " + vu::hex(fb->raw, 24));
            }
        }
        // the configuration in force: the one given before the run this connection belongs to
        const ClientCfg& cfg = (run.sc->has_ccfg2 && c.seq_begin > reconf_seq) ? run.sc->ccfg2 : run.sc->ccfg;
        if (&cfg == &run.sc->ccfg2) res.count("connects_after_reconfiguration");
        res.count("connections_with_traffic");
        // first packet: the configured CONNECT
        const ref::Packet& p = pk[0]->dec.pkt;
        if (pk[0]->dec.status != ref::Status::ok || p.type != ref::CONNECT) { v.add("C10", "C10:first-packet-not-connect", "connection " + std::to_string(c.id) + ": first packet is " + (pk[0]->dec.status == ref::Status::ok ? p.str() : "malformed")); continue; }
        std::string df;
        if (p.client_id != cfg.client_id) df += "client-id ";
        if (p.has_user != !cfg.username.empty() || (p.has_user && p.user != cfg.username)) df += "user-name ";
        if (p.has_pass != !cfg.password.empty() || (p.has_pass && p.pass != cfg.password)) df += "password ";
        if (p.keep_alive != cfg.keep_alive) df += "keep-alive ";
        if (p.clean_start) df += "clean-start ";
        if (p.proto_ver != 5 || p.proto_name != "MQTT") df += "protocol ";
        if (p.has_will != cfg.has_will) df += "will-flag ";
        if (p.has_will && cfg.has_will) {
            if (p.will_topic != cfg.will_topic) df += "will-topic ";
            if (p.will_payload != cfg.will_payload) df += "will-payload ";
            if (p.will_qos != cfg.will_qos) df += "will-qos ";
            if (p.will_retain != cfg.will_retain) df += "will-retain ";
            if (!ref::props_equal(p.will_props, l2r_will_props(cfg))) df += "will-properties ";
        }
        {
            ref::Props want = l2r_connect_props(cfg), got = p.props;
            if (cfg.use_authenticator) {
                // the authenticator contributes method and initial data
                bool has_method = false;
                for (auto& x : got) if (x.id == 0x15 && x.s1 == cfg.auth_method) has_method = true;
                if (!has_method) df += "authentication-method ";
                ref::Props g2; for (auto& x : got) if (x.id != 0x15 && x.id != 0x16) g2.push_back(x);
                ref::Props w2; for (auto& x : want) if (x.id != 0x15 && x.id != 0x16) w2.push_back(x);
                got = g2; want = w2;
            }
            if (!ref::props_equal(got, want)) df += "connect-properties ";
        }
        if (!df.empty()) v.add("C10", "C10:connect-differs:" + df, "connection " + std::to_string(c.id) + ": CONNECT differs from the configuration in: " + df + "| " + p.str());
        // gate: nothing but AUTH before the successful CONNACK has been delivered
        uint64_t gate = UINT64_MAX;
        if (c.connack_sent && c.connack_rc == 0 && c.connack_bpkt >= 0 && h.bpkts[c.connack_bpkt].delivered_t >= 0) gate = h.bpkts[c.connack_bpkt].delivered_seq;
        for (size_t i = 1; i < pk.size(); ++i) {
            auto& k = *pk[i];
            bool before_gate = gate == UINT64_MAX || k.seq < gate;
            if (!before_gate) break;
            if (k.dec.status == ref::Status::ok && k.dec.pkt.type == ref::AUTH && cfg.use_authenticator) continue;
            if (k.dec.status == ref::Status::ok && k.dec.pkt.type == ref::CONNECT) { v.add("C10", "C10:second-connect", "connection " + std::to_string(c.id) + ": more than one CONNECT"); continue; }
            // hostile handshakes may make the client believe in a CONNACK that the broker model did not send as such
            bool hostile = false;
            for (auto& b : h.bpkts) if (b.conn == c.id && (b.kind == BKind::hostile || !b.wellformed)) hostile = true;
            if (hostile) break;
            v.add("C10", "C10:packet-before-connack", "connection " + std::to_string(c.id) + ": " + (k.dec.status == ref::Status::ok ? k.dec.pkt.str() : std::string("bytes")) + " written before a successful CONNACK had been delivered");
        }
    }
    // abandonment: a handshake without CONNACK is given up exactly 5 s after async_connect was initiated
    for (auto& c : h.conns) {
        if (c.established) continue;
        vt t_cancel = -1;
        for (auto& e : h.ev) if (e.a == c.id && (e.kind == Ev::connect_end || e.kind == Ev::read_end || e.kind == Ev::write_end) && e.s.find("(cancel)") != std::string::npos) { t_cancel = e.t; break; }
        if (t_cancel < 0) continue;
        // cancellations caused by the application (cancel()/disconnect) are not timeouts
        bool by_app = false;
        for (auto& e : h.ev) if (e.kind == Ev::terminal && e.t <= t_cancel) by_app = true;   // cancel()/async_disconnect tear attempts down on their own schedule
        if (by_app) continue;
        res.count("handshake_timeouts");
        if (t_cancel - c.t_begin != 5 * SEC) v.add("C10", "C10:handshake-timeout-not-5s", "connection " + std::to_string(c.id) + ": attempt abandoned " + std::to_string((t_cancel - c.t_begin) / 1e9) + " s after async_connect was initiated");
    }
    // rotation: hosts are resolved in cyclic list order; the next attempt follows a failed one without delay, except
    // when the list wraps around: then the pause lies in [0.5 s, 16.5 s]
    if (!run.sc->host_list.empty()) {
        const auto& hl = run.sc->host_list;
        struct Res { uint64_t seq; vt t; int idx; bool ok; };
        std::vector<Res> rs;
        int expect = 0;
        for (auto& e : h.ev) {
            // a new async_run starts over at the head of the list
            if (e.kind == Ev::api_init && e.b == int(OpKind::run)) { expect = 0; continue; }
            if (e.kind != Ev::log_resolve) continue;
            std::string hp = e.s.substr(0, e.s.find(' '));
            int idx = -1;
            // the expected entry first (lists may contain duplicates)
            if (hl[expect].first + ":" + hl[expect].second == hp) idx = expect;
            else for (size_t i = 0; i < hl.size(); ++i) if (hl[i].first + ":" + hl[i].second == hp) { idx = (int)i; break; }
            bool ok = e.s.find(" ok") != std::string::npos;
            if (idx != expect) v.add("C10", "C10:rotation-order", "resolved " + hp + " (list entry " + std::to_string(idx) + ") where entry " + std::to_string(expect) + " (" + hl[expect].first + ":" + hl[expect].second + ") was due");
            rs.push_back({e.seq, e.t, idx, ok});
            if (idx >= 0) expect = (idx + 1) % (int)hl.size();
            res.count("resolutions");
        }
        // gaps between the end of a failed attempt and the start of the next resolution
        std::vector<uint64_t> rb; std::vector<vt> rbt;
        for (auto& e : h.ev) if (e.kind == Ev::resolve_begin) { rb.push_back(e.seq); rbt.push_back(e.t); }
        for (size_t i = 1; i < rb.size() && i - 1 < rs.size(); ++i) {
            // everything that happened between resolution i-1 and resolution i
            bool established = false, terminal = false; vt last_activity = rs[i - 1].t;
            for (auto& c : h.conns) if (c.seq_begin > rb[i - 1] && c.seq_begin < rb[i]) {
                if (c.established) established = true;
                for (auto& e : h.ev) if (e.a == c.id && e.seq < rb[i] && (e.kind == Ev::connect_end || e.kind == Ev::read_end || e.kind == Ev::write_end || e.kind == Ev::shutdown_end || e.kind == Ev::conn_close)) last_activity = std::max(last_activity, e.t);
            }
            for (auto& e : h.ev) if ((e.kind == Ev::terminal || (e.kind == Ev::api_init && e.b == int(OpKind::run))) && e.seq > rb[i - 1] && e.seq < rb[i]) terminal = true;
            if (established || terminal) continue;     // a new episode: its start is not a retry
            bool wrap = rs[i - 1].idx == (int)hl.size() - 1;
            vt gap = rbt[i] - last_activity;
            if (wrap) {
                res.count("wrap_pauses");
                if (gap < 500 * MS || gap > 16500 * MS) v.add("C10", gap < 500 * MS ? "C10:wrap-pause-too-short" : "C10:wrap-pause-too-long", "pause of " + std::to_string(gap / 1e9) + " s when the broker list wrapped around (allowed 0.5 - 16.5 s)");
            } else {
                res.count("immediate_retries");
                if (gap != 0) v.add("C10", "C10:pause-without-wrap", "pause of " + std::to_string(gap / 1e9) + " s before trying list entry " + std::to_string(rs.size() > i ? rs[i].idx : -1) + " although the list had not wrapped");
            }
        }
        // addresses of one host are tried in the order returned, without delay
    }
    // C11 (c): every trigger is resolved. At the autoconnect_stream level (stream_mode 1) a write issued on an open stream either
    // goes out or comes back with try_again once the reconnection it triggered has finished; with a reachable broker that
    // takes at most the scripted bad attempts (5 s each) plus back-off. Judged for writes issued >= 120 s before the end.
    if (run.sc->stream_mode == 1) {
        uint64_t final_seq = UINT64_MAX; vt final_t = run.out.t_end;
        for (auto& e : h.ev) if (e.kind == Ev::note && e.s == "final phase") { final_seq = e.seq; final_t = e.t; }
        for (auto& o : h.ops) {
            if (o.kind != OpKind::s_write || o.signalled) continue;
            bool later_terminal = false;
            for (auto& e : h.ev) if (e.kind == Ev::terminal && e.seq > o.seq_init && e.seq < final_seq) later_terminal = true;
            if (later_terminal || final_t - o.t_init < 120 * SEC) continue;
            res.count("stream_triggers_judged");
            if (!o.completions || o.seq_done > final_seq)
                v.add("C11", "C11:trigger-never-resolved", op_str(o) + ": a write on the open stream was neither performed nor told to try again within " + std::to_string((final_t - o.t_init) / SEC) + " s although the broker was reachable");
        }
    }
    // C11 (d): a failure report that arrives late (the abort of an operation that was still pending on a transport which has been
    // replaced meanwhile) is not a failure of the new transport: at the autoconnect_stream level no established connection is given
    // up by the client unless something happened to it (a fault, a read timeout, a shutdown / cancel / close by the script)
    if (run.sc->stream_mode == 1) {
        for (auto& c : h.conns) {
            if (!c.established || c.t_closed < 0 || c.closed_by != "client" || c.faulted) continue;
            bool cause = false;
            for (auto& e : h.ev) {
                if (e.seq > c.seq_closed) break;
                if (e.seq < c.seq_established) continue;
                if (e.kind == Ev::terminal || e.kind == Ev::shutdown_begin) cause = true;                      // the script cancelled / shut down
                if (e.kind == Ev::fault && (e.a == c.id || e.a < 0)) cause = true;                             // something happened to it
                if (e.a == c.id && (e.kind == Ev::read_end || e.kind == Ev::write_end) && e.s.find("ok") == std::string::npos && e.s.find("operation_aborted") == std::string::npos) cause = true;   // an operation on it failed
                if (e.a == c.id && e.kind == Ev::read_end && e.s.find("(cancel)") != std::string::npos) cause = true;   // read timeout
                if (e.kind == Ev::signal) cause = true;                                                        // the script cancelled one of the operations
            }
            res.count("stream_connections_closed_by_client");
            if (!cause) v.add("C11", "C11:healthy-connection-given-up", "connection " + std::to_string(c.id) + " (established at " + std::to_string(c.t_established / 1e9) + " s) was given up by the client at " + std::to_string(c.t_closed / 1e9) + " s although nothing had happened to it");
        }
    }
    // C11 (b): single flight
    for (auto& e : h.ev) if (e.kind == Ev::note && e.s.rfind("overlap:", 0) == 0) v.add("C11", "C11:overlapping-attempts", e.s + " (t=" + std::to_string(e.t / 1e9) + "s)");
    if (run.w->max_resolving > 1) v.add("C11", "C11:overlapping-resolutions", "two name resolutions in flight at once");
    {
        // after cancel() / a completed async_disconnect no connection attempt starts until async_run
        uint64_t quiet_from = 0; bool quiet = false;
        struct It { uint64_t seq; int kind; };
        for (auto& e : h.ev) {
            if (e.kind == Ev::terminal && (e.b == 0 || e.b == 2 || e.b == 3)) { quiet = true; quiet_from = e.seq; }
            if (e.kind == Ev::api_init && e.b == int(OpKind::run)) quiet = false;
            if (e.kind == Ev::note && e.s.rfind("script: stream reopened", 0) == 0) quiet = false;
            if (quiet && e.seq > quiet_from && (e.kind == Ev::connect_begin || e.kind == Ev::resolve_begin))
                v.add("C11", std::string("C11:attempt-after-cancel:") + ev_name(e.kind), std::string(ev_name(e.kind)) + " after the client had been cancelled (t=" + std::to_string(e.t / 1e9) + "s)");
        }
    }
    if (h.conns.size() >= 2) res.count("scenarios_with_reconnects");
}

// ------------------------------------------------------------------------------------------------ C12
void mon_keepalive(const Run& run, const Ix&, Verdicts& v, vu::Result& res) {
    const History& h = run.w->h;
    for (auto& c : h.conns) {
        if (!c.established) continue;
        bool hostile = false;
        for (auto& b : h.bpkts) if (b.conn == c.id && (b.kind == BKind::hostile || !b.wellformed)) hostile = true;
        if (hostile) continue;
        unsigned K = c.caps.server_keep_alive ? *c.caps.server_keep_alive : run.sc->ccfg.keep_alive;
        vt end = c.t_closed >= 0 ? c.t_closed : run.out.t_end;
        if (c.faulted && c.t_fault < end) end = c.t_fault;
        for (auto& e : h.ev) if (e.kind == Ev::terminal && e.t < end && e.seq > c.seq_established) end = e.t;
        std::vector<const CPacket*> pings;
        for (auto& k : h.cpkts) if (k.conn == c.id && k.dec.status == ref::Status::ok && k.dec.pkt.type == ref::PINGREQ) pings.push_back(&k);
        if (K == 0) {
            if (!pings.empty()) v.add("C12", "C12:ping-with-keepalive-0", "connection " + std::to_string(c.id) + ": PINGREQ although the negotiated keep-alive is 0");
            for (auto& e : h.ev) if (e.a == c.id && e.kind == Ev::read_end && e.s.find("(cancel)") != std::string::npos && e.seq > c.seq_established) {
                bool by_app = false;
                for (auto& x : h.ev) if (x.kind == Ev::terminal && x.t == e.t) by_app = true;
                if (!by_app) v.add("C12", "C12:read-timeout-with-keepalive-0", "connection " + std::to_string(c.id) + ": read abandoned although keep-alive is 0");
            }
            res.count("keepalive0_connections");
            continue;
        }
        vt KK = vt(K) * SEC;
        // PINGREQ deadlines
        vt ts = c.t_established; size_t pi = 0;
        while (ts + KK < end) {
            vt deadline = ts + KK;
            // a write pending at the deadline postpones the PINGREQ to its end
            for (auto& w : h.writes) if (w.conn == c.id && w.t_begin <= deadline && (!w.done || w.t_end > deadline)) deadline = std::max(deadline, w.done ? w.t_end : end);
            if (deadline >= end) break;
            if (pi >= pings.size() || pings[pi]->t > deadline) {
                v.add("C12", "C12:pingreq-late", "connection " + std::to_string(c.id) + " (keep-alive " + std::to_string(K) + " s): no PINGREQ by " + std::to_string(deadline / 1e9) + "s (interval started at " + std::to_string(ts / 1e9) + "s)");
                break;
            }
            res.count("ping_intervals_checked");
            auto& w = h.writes[pings[pi]->write];
            if (!w.done) break;
            ts = w.t_end; ++pi;
        }
        // silence timeout: a read that gets no byte is abandoned exactly 1.5*K after it was started
        vt rb = -1;
        for (auto& e : h.ev) {
            if (e.a != c.id || e.seq < c.seq_established) continue;
            if (e.kind == Ev::read_begin) rb = e.t;
            else if (e.kind == Ev::read_end) {
                if (e.s.find("(cancel)") != std::string::npos && rb >= 0) {
                    bool by_app = false;
                    for (auto& x : h.ev) if (x.kind == Ev::terminal && x.t == e.t) by_app = true;
                    if (!by_app) {
                        res.count("read_timeouts");
                        vt want = KK * 3 / 2;
                        if (e.t - rb != want) v.add("C12", e.t - rb < want ? "C12:read-timeout-early" : "C12:read-timeout-late",
                                                    "connection " + std::to_string(c.id) + " (keep-alive " + std::to_string(K) + " s): read abandoned after " + std::to_string((e.t - rb) / 1e9) + " s of silence, expected " + std::to_string(want / 1e9));
                    }
                } else if (rb >= 0 && e.t - rb > KK * 3 / 2 + 1 * MS && rb + KK * 3 / 2 < end - 1 * MS) {
                    // the read did end (data at last, or the stream was closed for another reason), but only after it had waited
                    // longer than 1.5*K without a byte
                    v.add("C12", "C12:no-read-timeout", "connection " + std::to_string(c.id) + " (keep-alive " + std::to_string(K) + " s): a read started at " + std::to_string(rb / 1e9) + "s waited " + std::to_string((e.t - rb) / 1e9) + " s without a byte and was not abandoned after 1.5*K");
                }
                rb = -1;
            }
        }
        if (rb >= 0 && rb + KK * 3 / 2 < end - 1 * MS) v.add("C12", "C12:no-read-timeout", "connection " + std::to_string(c.id) + " (keep-alive " + std::to_string(K) + " s): a read started at " + std::to_string(rb / 1e9) + "s got no byte for more than 1.5*K and was not abandoned");
        res.count("keepalive_connections");
    }
}

// ------------------------------------------------------------------------------------------------ C15
void mon_capabilities(const Run& run, const Ix& ix, Verdicts& v, vu::Result& res) {
    const History& h = run.w->h;
    // which CONNACK did the client hold when the operation was initiated?
    auto caps_at = [&](uint64_t seq) -> const ConnRec* {
        const ConnRec* r = nullptr;
        for (auto& c : h.conns) if (c.established && c.seq_established < seq) r = &c;
        return r;
    };
    for (auto& k : h.cpkts) {
        if (k.dec.status != ref::Status::ok) continue;
        int op = ix.cpkt_op[k.id];
        auto& p = k.dec.pkt;
        const OpRec* o = op >= 0 ? &h.ops[op] : nullptr;
        if (p.type == ref::DISCONNECT) {
            auto& c = h.conns[k.conn];
            if (c.caps.maximum_packet_size && k.raw.size() > *c.caps.maximum_packet_size) v.add("C15", "C15:disconnect-exceeds-maximum-packet-size", "DISCONNECT of " + std::to_string(k.raw.size()) + " bytes exceeds Maximum Packet Size " + std::to_string(*c.caps.maximum_packet_size));
            continue;
        }
        if (!o) continue;
        const ConnRec* held = caps_at(o->seq_init);
        if (!held) continue;    // initiated without a CONNACK: outside the property
        const Caps& cp = held->caps;
        res.count("packets_checked_against_caps");
        if (cp.maximum_packet_size && k.raw.size() > *cp.maximum_packet_size) v.add("C15", std::string("C15:exceeds-maximum-packet-size:") + ref::type_name(p.type), op_str(*o) + ": " + std::to_string(k.raw.size()) + " bytes on the wire, Maximum Packet Size " + std::to_string(*cp.maximum_packet_size));
        if (p.type == ref::PUBLISH) {
            if (cp.maximum_qos && p.qos > *cp.maximum_qos) v.add("C15", "C15:exceeds-maximum-qos", op_str(*o) + ": QoS " + std::to_string(p.qos) + " sent, Maximum QoS " + std::to_string(*cp.maximum_qos));
            if (cp.retain_available && *cp.retain_available == 0 && p.retain) v.add("C15", "C15:retain-not-available", op_str(*o) + ": retained PUBLISH sent although Retain Available is 0");
            for (auto& x : p.props) if (x.id == 0x23) { unsigned tam = cp.topic_alias_maximum.value_or(0); if (x.num == 0 || x.num > tam) v.add("C15", "C15:topic-alias-out-of-range", op_str(*o) + ": Topic Alias " + std::to_string(x.num) + " sent, Topic Alias Maximum " + std::to_string(tam)); }
        }
        if (p.type == ref::SUBSCRIBE) {
            for (auto& sb : p.subs) {
                bool shared = sb.first.rfind("$share/", 0) == 0;
                if (cp.shared_available && *cp.shared_available == 0 && shared) v.add("C15", "C15:shared-subscription-not-available", op_str(*o) + ": shared subscription sent although disabled");
                if (cp.wildcard_available && *cp.wildcard_available == 0 && ref::filter_has_wildcard(shared ? sb.first.substr(sb.first.find('/', 7) == std::string::npos ? 0 : sb.first.find('/', 7)) : sb.first)) v.add("C15", "C15:wildcard-subscription-not-available", op_str(*o) + ": wildcard subscription sent although disabled");
            }
            for (auto& x : p.props) if (x.id == 0x0B && cp.sub_id_available && *cp.sub_id_available == 0) v.add("C15", "C15:subscription-identifier-not-available", op_str(*o) + ": Subscription Identifier sent although disabled");
        }
    }
    // application side: requests the model says must be refused
    for (auto& o : h.ops) {
        if (!o.immediate_expected && run.sc->family.rfind("c15", 0) == 0 && is_request(o) && o.completions && o.ec.category() == boost::mqtt5::client::get_error_code_category() && o.ec != mqe::error::pid_overrun)
            v.add("C15", "C15:admissible-request-refused:" + ec_name(o.ec), op_str(o) + ": a request within every announced capability was refused with " + ec_name(o.ec));
        if (!o.immediate_expected) continue;
        res.count("requests_expected_to_be_refused");
        bool pub = o.kind == OpKind::pub0 || is_pub12(o);
        const auto& reqs = pub ? ix.op_pubs[o.id] : ix.op_reqs[o.id];
        const char* P = run.sc->family.rfind("c16", 0) == 0 ? "C16" : "C15";
        if (!reqs.empty()) v.add(P, std::string(P) + ":refused-request-on-the-wire", op_str(o) + ": a request that must be refused was transmitted");
        if (o.kind == OpKind::disconnect)
            for (auto& k : h.cpkts) if (k.seq > o.seq_init && k.dec.status == ref::Status::ok && k.dec.pkt.type == ref::DISCONNECT) { v.add(P, std::string(P) + ":refused-request-on-the-wire", op_str(o) + ": a DISCONNECT was transmitted although the request must be refused"); break; }
        if (!o.completions) { v.add(P, std::string(P) + ":refusal-not-reported", op_str(o) + ": a request that must be refused never completed"); continue; }
        if (!o.ec) v.add(P, std::string(P) + ":invalid-request-accepted", op_str(o) + ": a request that must be refused completed successfully");
        if (o.t_done != o.t_init) v.add(P, std::string(P) + ":refusal-not-immediate", op_str(o) + ": refusal took " + std::to_string((o.t_done - o.t_init) / 1e9) + " s");
        if (o.expect_ec && o.ec && !(o.ec.category() == boost::mqtt5::client::get_error_code_category() && o.ec.value() == o.expect_ec))
            v.add(P, std::string(P) + ":wrong-refusal-code", op_str(o) + ": refused with " + ec_name(o.ec) + ", documented code is mqtt_client_error:" + std::to_string(o.expect_ec));
        if (o.depth_at_done > 0) v.add(P, std::string(P) + ":refusal-inside-initiation", op_str(o) + ": refusal delivered from inside the initiating call");
    }
}

}  // namespace

uint64_t trace_shape(const Run& run) {
    uint64_t hsh = 1469598103934665603ull;
    for (auto& e : run.w->h.ev) {
        switch (e.kind) {
            case Ev::api_init: hsh = vu::mix(hsh, 0x100 | e.b); break;
            case Ev::api_done: hsh = vu::mix(hsh, 0x200 | (e.s.find(" ok") != std::string::npos ? 1 : 0)); break;
            case Ev::connect_end: hsh = vu::mix(hsh, 0x300 | (e.s == "ok")); break;
            case Ev::fault: hsh = vu::mix(hsh, 0x400); break;
            case Ev::conn_close: hsh = vu::mix(hsh, 0x500); break;
            case Ev::write_end: hsh = vu::mix(hsh, 0x600 | (e.s == "ok")); break;
            case Ev::terminal: hsh = vu::mix(hsh, 0x700 | e.b); break;
            case Ev::log_connack: hsh = vu::mix(hsh, 0x800 | (e.b & 0xff) | (e.c ? 0x1000 : 0)); break;
            case Ev::signal: hsh = vu::mix(hsh, 0x900 | e.b); break;
            default: break;
        }
    }
    for (auto& b : run.w->h.bpkts) hsh = vu::mix(hsh, (b.pkt.type << 4) | int(b.kind));
    for (auto& k : run.w->h.cpkts) hsh = vu::mix(hsh, (k.dec.pkt.type << 8) | (k.dec.pkt.dup ? 1 : 0) | (k.conn << 12));
    return hsh;
}

void monitor_engine(const Run& run, Verdicts& v, vu::Result& res) {
    if (run.out.exception) { v.add("ENGINE", "exception:" + run.out.exception_what.substr(0, 40), "exception escaped io_context::poll(): " + run.out.exception_what); res.count("exceptions"); }
    if (run.out.hang) { v.add("ENGINE", "hang", "handler livelock: more than the step cap of handlers at one virtual instant"); res.count("hangs"); }
    for (auto& e : run.w->h.ev) if (e.kind == Ev::assert_fired) { v.add("ENGINE", "assert:" + e.s.substr(0, 60), "BOOST_ASSERT fired: " + e.s); res.count("asserts"); }
}

// ------------------------------------------------------------------------------------------------ C17 (in situ)
void mon_wire_wellformed(const Run& run, const Ix&, Verdicts& v, vu::Result& res) {
    const History& h = run.w->h;
    for (auto& k : h.cpkts) {
        res.count("client_packets_decoded");
        if (k.dec.status != ref::Status::ok) {
            v.add("C17", "C17:wire:not-well-formed", "the client wrote bytes the independent decoder rejects (" + k.dec.error + "): " + vu::hex(k.raw, 48));
            continue;
        }
        for (auto& is : k.dec.protocol_issues)
            v.add("C17", "C17:wire:protocol-issue:" + std::string(ref::type_name(k.dec.pkt.type)), std::string(ref::type_name(k.dec.pkt.type)) + " on the wire is well formed but not allowed: " + is);
        if (k.dec.pkt.type == ref::AUTH) {
            // says what was asked: the configured method, the data the authenticator supplied, a reason code a Client may use
            res.count("auth_packets_checked");
            std::string method, data, want = run.sc->ccfg.use_authenticator ? run.sc->ccfg.auth_method : "";
            for (auto& x : k.dec.pkt.props) { if (x.id == 0x15) method = x.s1; if (x.id == 0x16) data = x.s1; }
            bool after_connack = false;
            for (auto& b : h.bpkts) if (b.conn == k.conn && b.pkt.type == ref::CONNACK && b.delivered_t >= 0 && b.delivered_seq < k.seq) after_connack = true;
            if (after_connack && k.dec.pkt.rc == 0x19) res.count("reauthentications_started");
            if (method != want) v.add("C17", "C17:wire-contents:auth-method", "AUTH carries authentication method \"" + method + "\", configured is \"" + want + "\"");
            if (data.rfind("client-data-", 0) != 0) v.add("C17", "C17:wire-contents:auth-data", "AUTH carries authentication data the authenticator did not supply: " + vu::hex(data, 24));
            // reason code: 0x18 answers a challenge of the Server (always so during the handshake), 0x19 starts a re-authentication
            int challenges = 0, answered = 0;
            for (auto& b : h.bpkts) if (b.conn == k.conn && b.pkt.type == ref::AUTH && b.pkt.rc == 0x18 && b.wellformed && b.delivered_t >= 0 && b.delivered_seq < k.seq) ++challenges;
            for (auto& q : h.cpkts) if (q.conn == k.conn && q.seq < k.seq && q.dec.status == ref::Status::ok && q.dec.pkt.type == ref::AUTH && q.dec.pkt.rc == 0x18) ++answered;
            uint8_t expect = (!after_connack || challenges > answered) ? 0x18 : 0x19;
            if (k.dec.pkt.rc != expect) v.add("C17", "C17:wire-contents:auth-reason-code", "AUTH with reason code 0x" + vu::hex(std::string(1, char(k.dec.pkt.rc))) + (after_connack ? " after" : " before") + " the CONNACK where 0x" + vu::hex(std::string(1, char(expect))) + " is due (" + std::to_string(challenges) + " challenges delivered, " + std::to_string(answered) + " answered)");
        }
    }
}

// ------------------------------------------------------------------------------------------------ C18 (in situ)
// On a connection on which the broker model sent nothing but well-formed, conformant packets within the client's receive limit, the
// client has no reason to call anything malformed: a DISCONNECT 0x81 / 0x82 carrying one of the library's "Malformed ..." reason
// strings means a well-formed packet did not decode (or decoded to something the library then refused).
void mon_conformant_rejections(const Run& run, const Ix&, Verdicts& v, vu::Result& res) {
    const History& h = run.w->h;
    for (auto& c : h.conns) {
        bool hostile = false; uint32_t limit = 0; size_t delivered = 0;
        for (auto& q : h.cpkts) if (q.conn == c.id && q.dec.status == ref::Status::ok && q.dec.pkt.type == ref::CONNECT) for (auto& x : q.dec.pkt.props) if (x.id == 0x27) limit = (uint32_t)x.num;
        for (auto& b : h.bpkts) if (b.conn == c.id) { if (b.kind != BKind::normal && b.kind != BKind::retransmit) hostile = true; if (!b.wellformed || b.raw.size() > (limit ? limit : 65536u)) hostile = true; if (b.delivered_t >= 0) ++delivered; }
        if (hostile || !delivered) continue;
        res.count("conformant_connections");
        res.count("conformant_packets_delivered", delivered);
        for (auto& k : h.cpkts) {
            if (k.conn != c.id || k.dec.status != ref::Status::ok || !library_own_disconnect(k.dec.pkt) || k.dec.pkt.rc == 0x80) continue;
            std::string rs; for (auto& x : k.dec.pkt.props) if (x.id == 0x1F) rs = x.s1;
            if (rs.rfind("Re-authentication", 0) == 0) continue;    // the application's authenticator said no
            const BPacket* last = nullptr;
            for (auto& b : h.bpkts) if (b.conn == c.id && b.delivered_t >= 0 && b.delivered_seq < k.seq && (!last || b.delivered_seq > last->delivered_seq)) last = &b;
            v.add("C18", std::string("C18:in-situ:conformant-packet-rejected:") + (last ? ref::type_name(last->pkt.type) : "?"), "connection " + std::to_string(c.id) + ": the client sent DISCONNECT 0x" + vu::hex(std::string(1, char(k.dec.pkt.rc))) +
                  " \"" + rs + "\" although the broker had sent only well-formed, conformant packets; last packet delivered before it: " + (last ? last->pkt.str().substr(0, 160) : std::string("none")));
        }
    }
}

void monitor_ids_only(const Run& run, Verdicts& v, vu::Result& res) {
    Ix ix(run.w->h);
    mon_quota_and_ids(run, ix, v, res);
    mon_completion(run, ix, v, res);
}

void monitor_all(const Run& run, Verdicts& v, vu::Result& res) {
    Ix ix(run.w->h);
    mon_truthful(run, ix, v, res);
    mon_no_loss(run, ix, v, res);
    mon_qos2_sender(run, ix, v, res);
    mon_order(run, ix, v, res);
    mon_quota_and_ids(run, ix, v, res);
    mon_completion(run, ix, v, res);
    mon_session_expired(run, ix, v, res);
    mon_inbound(run, ix, v, res);
    mon_disconnect(run, ix, v, res);
    mon_connect(run, ix, v, res);
    mon_keepalive(run, ix, v, res);
    mon_capabilities(run, ix, v, res);
    mon_wire_wellformed(run, ix, v, res);
    mon_conformant_rejections(run, ix, v, res);
}

}  // namespace sim
