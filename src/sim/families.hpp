// Scenario families (workload generators) per property.
#pragma once
#include <string>

#include "common/vutil.hpp"
#include "sim/scenario.hpp"

namespace sim {

struct FamilyCtx {
    std::string prop; bool thorough; uint64_t seed; int shard, nshards; const vu::Args& args;
};

// generates and runs the scenarios of ctx.prop's families for this shard; returns the process exit code
int run_families(const FamilyCtx& ctx, vu::Result& res);

}  // namespace sim
