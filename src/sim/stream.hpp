// The StreamType the real client is instantiated with. A thin, template-only shell: every operation is
// type-erased and handed to sim::World.
#pragma once
#include <boost/asio/any_io_executor.hpp>
#include <boost/asio/async_result.hpp>
#include <boost/asio/buffer.hpp>
#include <boost/asio/ip/tcp.hpp>

#include <string>
#include <vector>

#include "sim/world.hpp"

namespace sim {

class stream {
public:
    using executor_type = asio::any_io_executor;
    using protocol_type = asio::ip::tcp;
    using endpoint_type = asio::ip::tcp::endpoint;

    explicit stream(executor_type ex) { st_.ex = std::move(ex); }
    stream(const stream&) = delete;
    stream& operator=(const stream&) = delete;
    ~stream() { if (World::cur) World::cur->s_destroy(st_); }

    executor_type get_executor() const noexcept { return st_.ex; }

    void open(const protocol_type&, error_code& ec) { ec = {}; if (World::cur) World::cur->s_open(st_); else st_.open = true; }
    void close(error_code& ec) { ec = {}; if (World::cur) World::cur->s_close(st_, "close()"); else st_.open = false; }
    bool is_open() const { return st_.open; }
    endpoint_type remote_endpoint(error_code& ec) const {
        if (!st_.connected) { ec = asio::error::not_connected; return endpoint_type{}; }
        ec = {};
        return st_.remote;
    }
    template <typename Option> void set_option(const Option&, error_code& ec) { ec = {}; }

    template <typename Token>
    auto async_connect(const endpoint_type& ep, Token&& token) {
        return asio::async_initiate<Token, void(error_code)>(
            [this](auto handler, endpoint_type ep) { World::cur->s_connect(st_, ep, EcHandler(std::move(handler))); }, token, ep);
    }

    template <typename MutableBufferSequence, typename Token>
    auto async_read_some(const MutableBufferSequence& buffers, Token&& token) {
        std::vector<asio::mutable_buffer> bufs;
        for (auto it = asio::buffer_sequence_begin(buffers); it != asio::buffer_sequence_end(buffers); ++it) bufs.push_back(asio::mutable_buffer(*it));
        return asio::async_initiate<Token, void(error_code, std::size_t)>(
            [this](auto handler, std::vector<asio::mutable_buffer> bufs) { World::cur->s_read(st_, std::move(bufs), IoHandler(std::move(handler))); },
            token, std::move(bufs));
    }

    // One library write = one transport call (the library prefers a member async_write, like WebSocket streams):
    // the simulator sees exactly which packets form a batch and which result the library was given for it.
    template <typename ConstBufferSequence, typename Token>
    auto async_write(const ConstBufferSequence& buffers, Token&& token) {
        std::string bytes;
        for (auto it = asio::buffer_sequence_begin(buffers); it != asio::buffer_sequence_end(buffers); ++it) {
            asio::const_buffer b(*it);
            bytes.append(static_cast<const char*>(b.data()), b.size());
        }
        return asio::async_initiate<Token, void(error_code, std::size_t)>(
            [this](auto handler, std::string bytes) { World::cur->s_write(st_, std::move(bytes), IoHandler(std::move(handler))); },
            token, std::move(bytes));
    }

    StreamState& state() { return st_; }

private:
    StreamState st_;
};

// found by ADL from the library (TLS / WebSocket style shutdown)
template <typename Handler>
void async_shutdown(stream& s, Handler&& handler) {
    World::cur->s_shutdown(s.state(), EcHandler(std::forward<Handler>(handler)));
}

}  // namespace sim
