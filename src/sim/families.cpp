#include "sim/families.hpp"

#include <algorithm>
#include <sstream>

#include <boost/asio/error.hpp>
#include <boost/mqtt5/error.hpp>

#include "ref/gen.hpp"
#include "ref/lib2ref.hpp"
#include "sim/monitors.hpp"

namespace sim {

namespace {

// ------------------------------------------------------------------------------------------------ judging one run
struct Judge {
    const FamilyCtx& ctx; vu::Result& res;
    uint64_t cases = 0;

    // returns true if the scenario ran to its end (not aborted by the engine)
    bool judge(const Scenario& sc, Execution& ex, bool count_shape = true, bool ids_only = false) {
        ++cases;
        res.evaluations++;
        Verdicts v;
        monitor_engine(ex.run, v, res);
        if (ids_only) monitor_ids_only(ex.run, v, res); else monitor_all(ex.run, v, res);
        if (count_shape) res.hash(trace_shape(ex.run));
        if (res.samples.size() < 2 && ex.world->h.ops.size() < 40)
            res.sample("{\"scenario\": " + vu::jesc(sc.describe().substr(0, 1200)) + ", \"observed\": {\"connections\": " + std::to_string(ex.world->h.conns.size()) + ", \"client_packets\": " +
                       std::to_string(ex.world->h.cpkts.size()) + ", \"broker_packets\": " + std::to_string(ex.world->h.bpkts.size()) + ", \"operations\": " + std::to_string(ex.world->h.ops.size()) + "}}");
        res.count("connections", ex.world->h.conns.size());
        for (auto& o : ex.world->h.ops) if (o.signalled && o.kind != OpKind::recv && o.kind != OpKind::run) { res.count("requests_signalled"); if (o.signal_type != 1 && o.completions && o.ec == boost::asio::error::operation_aborted) res.count("requests_aborted_after_total_or_partial_signal"); }
        if (ex.broker && ex.broker->acks_withheld) { res.count("acks_withheld_on_live_connections", ex.broker->acks_withheld); res.count("scenarios_with_withheld_acks"); }
        { int sentry = 0; for (auto& k : ex.world->h.cpkts) if (k.dec.status == ref::Status::ok && k.dec.pkt.type == ref::DISCONNECT && k.dec.pkt.rc == 0x80) ++sentry; if (sentry) res.count("no_reply_disconnects", sentry); if (sentry > 1) res.count("scenarios_with_2plus_no_reply_disconnects"); }
        res.count("client_packets", ex.world->h.cpkts.size());
        res.count("broker_packets", ex.world->h.bpkts.size());
        res.count("operations", ex.world->h.ops.size());
        res.count("idle_points", ex.run.out.idle_points);
        for (auto& c : ex.world->h.conns) if (c.faulted) res.count("connections_lost_to_faults");
        if (ex.run.out.harness_failure) { res.harness_error = ex.run.out.harness_what; return false; }
        for (auto& f : v.findings) {
            std::string prop = f.prop, key = f.key;
            if (prop == "ENGINE") {
                // exceptions / livelocks / assertions: violations of the properties that promise their absence or that
                // cannot hold without progress; for the others the run is inconclusive
                if (ctx.prop == "C19" || ctx.prop == "C05" || ctx.prop == "C02") { prop = ctx.prop; key = ctx.prop + ":" + f.key; }
                else { res.harness_error = "inconclusive: scenario aborted by the engine (" + f.key + "): " + f.what; continue; }
            }
            if (ctx.prop == "C17" && (key.rfind("C01:request-differs", 0) == 0 || key.rfind("C14:request-differs", 0) == 0 || key.rfind("C09:disconnect-contents", 0) == 0 || key.rfind("C10:connect-differs", 0) == 0)) {
                // "says exactly what was asked": the contents monitors of the other properties are C17 findings in C17's own workloads
                key = "C17:wire-contents:" + key; prop = "C17";
            }
            // the sweep bases have no fault-free suffix: of C02's rules only the retransmission rule applies to them
            if (ctx.prop == "C02" && (sc.family == "idle-sweep" || sc.family == "handler-sweep" || sc.family == "timer-sweep" || sc.family == "idle-base") && prop == "C02" && key != "C02:outstanding-not-retransmitted-on-next-connection") continue;
            std::string replay = "scenario:\n" + sc.describe() + "\nfinding: " + f.what + "\n\nhistory:\n" + ex.world->h.dump(900);
            if (prop == ctx.prop) res.violation(prop, key, f.what + " [family " + sc.family + " seed " + std::to_string(sc.seed) + " index " + std::to_string(sc.index) + "]", replay);
            else if (ctx.args.has("dump-notes")) res.violation(prop, key, f.what, replay);
            else if (res.notes.size() < 8) res.notes.push_back("NOTE " + prop + " monitor: " + key + ": " + f.what.substr(0, 160));
        }
        return !(ex.run.out.exception || ex.run.out.hang);
    }
};

// ------------------------------------------------------------------------------------------------ generic workload
struct Knobs {
    int pubs_min = 1, pubs_max = 10;
    int qos_w[3] = {1, 2, 2};
    int subs = 1, unsubs = 0, inbound = 2;
    bool rich_props = true;
    int big_payload_pct = 5;
    std::vector<int> rm_choices = {0, 0, 1, 2, 3, 5, 65535};
    vt ack_delay_max = 20 * MS;
    int faults_max = 2;
    int bad_attempts_max = 2;
    int lose_session_pct = 20;
    vt span = 2 * SEC;
    int burst_pct = 30;
    int fail_rc_pct = 5, alt_rc_pct = 5, ack_props_pct = 30;
    vt suffix = 120 * SEC;
    int keep_alive = 60;
    bool conformant = true;
    int hostile_count_pct = 0, hostile_rc_pct = 0;   // SUBACK/UNSUBACK with wrong count; acks with inadmissible reason codes
    int authenticator_pct = 0;   // the client uses enhanced authentication (broker runs 0-1 challenge rounds)
    int invalid_pub_pct = 0;     // publishes that fail validation (must be refused at once and leave no trace in quota / ids)
    int rm_change_pct = 0;       // the broker announces a different Receive Maximum (or none) on later connections
    int suback_fail_pct = 15, suback_all_fail_pct = 5;
    int sub_burst_pct = 0;
    int inline_followup_pct = 0;     // per publish: a follow-up publish issued from inside its completion handler
    int server_disconnect_pct = 0;   // the broker ends connections with DISCONNECT (sometimes right behind a last message, in the same read)
    int signal_pct = 0;          // per request: bound to a cancellation slot and signalled (total / partial, rarely terminal) some time after initiation
    int drop_ack_pct = 0;        // scenarios in which the broker withholds acknowledgements on a live connection for the first 30 s (only the 20 s sentry helps)
    int own_limit_pct = 0;       // the client announces a Maximum Packet Size; the broker sends messages exactly at / just below it
};

ref::Props pub_props(vu::Rng& rng, bool rich) {
    ref::Props p;
    if (!rich || rng.chance(1, 3)) return p;
    ref::Gen g(rng); g.max_str = 40;
    // everything except Topic Alias (needs a broker limit) and Subscription Identifier (not allowed from a client)
    p = g.props(ref::PUBLISH, -1, {0x23, 0x0B});
    for (auto& x : p) if (x.id == 0x01) x.num = 0;   // payload format indicator 1 would require UTF-8 payloads
    return p;
}

std::string payload_for(vu::Rng& rng, int big_pct) {
    size_t n = rng.chance(1, 8) ? 0 : rng.range(1, 60);
    if ((int)rng.below(100) < big_pct) n = rng.pick(std::vector<size_t>{127, 128, 300, 16383, 16384, 20000, 70000});
    std::string s(n, 0);
    for (size_t i = 0; i < n; ++i) s[i] = char(i < 48 ? rng.below(256) : 'a' + (i % 23));
    return s;
}

AttemptPlan bad_attempt(vu::Rng& rng) {
    AttemptPlan a;
    switch (rng.below(6)) {
        case 0: a.tcp = AttemptPlan::tcp_refused; break;
        case 1: a.tcp = AttemptPlan::tcp_hang; break;
        case 2: a.hs = AttemptPlan::hs_silent; break;
        case 3: a.hs = AttemptPlan::hs_refuse_rc; a.refuse_rc = rng.pick(std::vector<uint8_t>{0x80, 0x87, 0x88, 0x89, 0x97, 0x9F}); break;
        case 4: a.hs = AttemptPlan::hs_close; break;
        case 5: a.tcp = AttemptPlan::tcp_unreachable; break;
    }
    return a;
}

Scenario gen_mix(vu::Rng& rng, const Knobs& k, const std::string& family) {
    Scenario sc; sc.family = family;
    sc.ccfg.keep_alive = (uint16_t)k.keep_alive;
    sc.ccfg.client_id = "c" + std::to_string(rng.below(1000));
    int rm = rng.pick(k.rm_choices);
    if (rm > 0) sc.bcfg.caps.receive_maximum = (uint16_t)rm;
    if (k.authenticator_pct && (int)rng.below(100) < k.authenticator_pct) {
        sc.ccfg.use_authenticator = true; sc.ccfg.auth_method = "SIM-AUTH"; sc.broker_auth_rounds = (int)rng.below(2);
        // the application's authenticator reports a failure at its k-th step (once): the handshake / re-authentication in progress is abandoned
        if (rng.chance(1, 3)) sc.ccfg.auth_fail_at_step = (int)rng.below(6);
        // client-initiated re-authentication in the middle of the traffic
        int nr = (int)rng.below(3);
        for (int i = 0; i < nr; ++i) { Action a; a.kind = Action::reauth; a.at = (vt)rng.range(0, k.span + 2 * SEC); sc.script.push_back(a); }
    }
    if (k.rm_change_pct && (int)rng.below(100) < k.rm_change_pct) {
        int n = (int)rng.range(2, 4);
        for (int i = 0; i < n; ++i) sc.bcfg.receive_maximum_script.push_back(rng.pick(std::vector<int>{0, 0, 1, 2, 3, 8}));
    }
    sc.bcfg.ack_delay_max = k.ack_delay_max ? (vt)rng.range(0, k.ack_delay_max) : 0;
    sc.bcfg.lose_session_pct = k.lose_session_pct;
    sc.bcfg.fail_rc_pct = k.fail_rc_pct; sc.bcfg.alt_success_rc_pct = k.alt_rc_pct; sc.bcfg.ack_props_pct = k.ack_props_pct;
    // per-topic refusals in SUBACK/UNSUBACK, and brokers that refuse every filter (no subscription ever succeeds)
    sc.bcfg.suback_fail_pct = k.suback_fail_pct;
    if ((int)rng.below(100) < k.suback_all_fail_pct) sc.bcfg.suback_all_fail = true;
    sc.bcfg.suback_wrong_count_pct = k.hostile_count_pct; sc.bcfg.ack_bad_rc_pct = k.hostile_rc_pct;
    sc.net.chunking = rng.pick(std::vector<Chunking>{Chunking::whole, Chunking::whole, Chunking::bytewise, Chunking::random});
    if (rng.chance(1, 4)) sc.net.write_done_delay_max = (vt)rng.range(10 * US, 3 * MS);
    else if (rng.chance(1, 8)) sc.net.write_done_delay_max = (vt)rng.pick(std::vector<vt>{40 * MS, 300 * MS});   // replies overtake the write completion
    if (rng.chance(1, 4)) { sc.net.latency_min = 1 * MS; sc.net.latency_max = (vt)rng.range(2 * MS, 80 * MS); }
    Action r; r.kind = Action::run; r.at = 0; sc.script.push_back(r);
    int npubs = (int)rng.range(k.pubs_min, k.pubs_max);
    vt t = (vt)rng.range(0, 50 * MS);
    int wsum = k.qos_w[0] + k.qos_w[1] + k.qos_w[2];
    for (int i = 0; i < npubs; ++i) {
        Action p; p.kind = Action::publish;
        int x = (int)rng.below(wsum); p.qos = x < k.qos_w[0] ? 0 : x < k.qos_w[0] + k.qos_w[1] ? 1 : 2;
        p.retain = rng.chance(1, 5);
        p.topic = "t" + std::to_string(rng.below(4));
        p.payload = payload_for(rng, k.big_payload_pct);
        p.props = pub_props(rng, k.rich_props);
        if ((int)rng.below(100) >= k.burst_pct) t += (vt)rng.range(0, k.span / std::max(1, npubs));
        p.at = t;
        if (k.invalid_pub_pct && (int)rng.below(100) < k.invalid_pub_pct) {
            // refused by validation: wildcard in a topic name, or a User Property that is not UTF-8
            if (rng.chance(1, 2)) { p.topic = "bad/#"; p.expect_immediate = true; p.expect_ec = 104; }
            else { ref::Prop u; u.id = 0x26; u.s1 = "k"; u.s2 = "\xC3\x28"; p.props = {u}; p.expect_immediate = true; p.expect_ec = 100; }
        }
        sc.script.push_back(p);
    }
    // subscribe / unsubscribe requests issued in one burst stay outstanding together and are acknowledged out of order
    vt sub_burst_at = (vt)rng.range(0, k.span); bool sub_burst = (int)rng.below(100) < k.sub_burst_pct;
    for (int i = 0; i < k.subs; ++i) {
        Action s; s.kind = Action::subscribe; s.at = sub_burst ? sub_burst_at + (vt)rng.range(0, 2) * MS : (vt)rng.range(0, k.span);
        int n = (int)rng.range(1, 3);
        for (int j = 0; j < n; ++j) s.subs.emplace_back("f" + std::to_string(j) + "/" + rng.pick(std::vector<std::string>{"a/+", "b/#", "c", "+/x", "d/e/f", "#"}), uint8_t(rng.below(3) | (rng.below(2) << 2) | (rng.below(2) << 3) | (rng.below(3) << 4)));
        if (rng.chance(1, 3)) { ref::Prop u; u.id = 0x26; u.s1 = "k"; u.s2 = "v"; s.props.push_back(u); }
        if (rng.chance(1, 4)) { ref::Prop u; u.id = 0x0B; u.num = rng.range(1, 268435455); s.props.push_back(u); }
        sc.script.push_back(s);
    }
    for (int i = 0; i < k.unsubs; ++i) {
        Action s; s.kind = Action::unsubscribe; s.at = sub_burst ? sub_burst_at + (vt)rng.range(0, 300) * MS : (vt)rng.range(0, k.span);
        int n = (int)rng.range(1, 3);
        for (int j = 0; j < n; ++j) s.subs.emplace_back("u/" + std::to_string(j) + "/+", 0);
        sc.script.push_back(s);
    }
    for (int i = 0; i < k.inbound; ++i) {
        Action b; b.kind = Action::broker_publish; b.at = (vt)rng.range(0, k.span); b.qos = (int)rng.below(3); b.topic = "m" + std::to_string(i);
        b.payload = payload_for(rng, 2); b.retain = rng.chance(1, 6);
        // the client announces no Maximum Packet Size and then refuses packets above its 64 KiB receive buffer (documented
        // library behaviour, outside the 20 properties): the conformant broker of these workloads stays below it
        if (b.payload.size() > 60000) b.payload.resize(60000);
        if (rng.chance(1, 3)) { ref::Gen g(rng); g.max_str = 30; b.props = g.props(ref::PUBLISH, -1, {0x23}); }
        sc.script.push_back(b);
    }
    if (k.inline_followup_pct) {
        size_t n0 = sc.script.size();
        for (size_t i = 0; i < n0; ++i) {
            if (sc.script[i].kind != Action::publish || sc.script[i].expect_immediate || (int)rng.below(100) >= k.inline_followup_pct) continue;
            Action f; f.kind = Action::publish; f.qos = (int)rng.below(3); f.topic = "fu"; f.payload = "next"; f.after_script = (int)i; f.at = sc.script[i].at;
            sc.script.push_back(f);
        }
    }
    if ((int)rng.below(100) < k.server_disconnect_pct) {
        int nd = (int)rng.range(1, 2);
        for (int i = 0; i < nd; ++i) {
            Action d; d.kind = Action::broker_disconnect; d.at = (vt)rng.range(50 * MS, k.span + 1 * SEC);
            d.rc = rng.pick(std::vector<uint8_t>{0x00, 0x80, 0x87, 0x89, 0x8B, 0x8D, 0x8E, 0x93, 0x97, 0x98, 0x9C, 0xA0});
            if (rng.chance(1, 2)) d.payload = "last words";
            if (rng.chance(1, 3)) { ref::Prop u; u.id = 0x1F; u.s1 = "server says bye"; d.props.push_back(u); }
            sc.script.push_back(d);
        }
    }
    if (k.signal_pct) {
        size_t n0 = sc.script.size();
        for (size_t i = 0; i < n0; ++i) {
            auto kd = sc.script[i].kind;
            if (kd != Action::publish && kd != Action::subscribe && kd != Action::unsubscribe) continue;
            if ((int)rng.below(100) >= k.signal_pct) continue;
            sc.script[i].with_slot = true;
            Action g; g.kind = Action::signal; g.target = (int)i; g.sig = rng.chance(1, 12) ? SigType::terminal : rng.chance(1, 2) ? SigType::total : SigType::partial;
            g.at = sc.script[i].at + (vt)rng.pick(std::vector<vt>{0, 1 * MS, 20 * MS, 300 * MS, 2 * SEC});
            sc.script.push_back(g);
        }
    }
    if ((int)rng.below(100) < k.drop_ack_pct) { sc.bcfg.drop_ack_pct = (int)rng.pick(std::vector<int>{30, 50, 70}); sc.bcfg.drop_ack_until = 30 * SEC; if (sc.ccfg.keep_alive && sc.ccfg.keep_alive < 40) sc.ccfg.keep_alive = 60; }
    if ((int)rng.below(100) < k.own_limit_pct) {
        uint32_t lim = (uint32_t)rng.pick(std::vector<int>{70, 127, 128, 129, 130, 200, 300, 1000, 16383, 16384, 16390});
        sc.ccfg.connect_props[boost::mqtt5::prop::maximum_packet_size] = lim;
        int nb = (int)rng.range(1, 3);
        for (int i = 0; i < nb; ++i) {
            Action b; b.kind = Action::broker_publish; b.at = (vt)rng.range(0, k.span); b.qos = (int)rng.below(3); b.topic = "lim" + std::to_string(i);
            b.payload = "edge"; b.fit_delta = (int)rng.pick(std::vector<int>{0, 0, 1, 2, 3, 5});
            sc.script.push_back(b);
        }
    }
    // faults: byte offsets are drawn against a rough estimate of the traffic; misses simply do not fire
    int nf = (int)rng.below(k.faults_max + 1);
    for (int i = 0; i < nf; ++i) {
        Fault f; f.kind = rng.pick(std::vector<Fault::Kind>{Fault::reset_c2b, Fault::reset_c2b, Fault::reset_b2c, Fault::reset_b2c, Fault::eof_b2c, Fault::write_fail_delivered, Fault::write_stall});
        f.conn_ordinal = i; f.at = rng.range(0, 30 + 40 * npubs); f.ec = (int)rng.below(6);
        if (f.kind == Fault::write_stall) {
            // only the keep-alive read timeout (or a later read-side fault) gets the client out of a blocked write
            if (f.at < 20) f.at += 20;   // after the handshake
            sc.ccfg.keep_alive = (uint16_t)rng.range(1, 5);
            if (rng.chance(1, 2)) { Fault g; g.kind = rng.chance(1, 2) ? Fault::reset_b2c : Fault::eof_b2c; g.conn_ordinal = i; g.at = f.at / 2 + 40; g.ec = (int)rng.below(6); sc.faults.push_back(g); }
        }
        sc.faults.push_back(f);
    }
    int nb = (int)rng.below(k.bad_attempts_max + 1);
    // bad attempts are placed after the first good connection so that the workload meets them while reconnecting
    sc.attempts.clear();
    if (nb) {
        int pos = (int)rng.below(3);
        for (int i = 0; i < pos; ++i) sc.attempts.push_back(AttemptPlan{});
        for (int i = 0; i < nb; ++i) sc.attempts.push_back(bad_attempt(rng));
    }
    sc.end = k.span + k.suffix;
    return sc;
}

// ------------------------------------------------------------------------------------------------ crash-point sweep
// Runs `base` fault-free to learn how many bytes cross the first connection in each direction, then yields one
// scenario per crash point (and per outcome of the following connection attempt).
struct CrashSweep {
    Scenario base; size_t c2b = 0, b2c = 0; bool measured = false;
    void measure() {
        Scenario s = base; s.faults.clear(); s.attempts.clear();
        auto ex = execute(s);
        for (auto& c : ex->world->h.conns) if (c.tcp_ok) { c2b = c.c2b_bytes; b2c = c.b2c_bytes; break; }
        measured = true;
    }
    size_t points() const { return c2b + b2c + c2b; }   // reset c2b at k, reset b2c at k, write-fail-delivered at k
    Scenario at(size_t point, int next_attempt) const {
        Scenario s = base;
        Fault f; f.conn_ordinal = 0;
        if (point < c2b) { f.kind = Fault::reset_c2b; f.at = point; }
        else if (point < c2b + b2c) { f.kind = Fault::reset_b2c; f.at = point - c2b; }
        else { f.kind = Fault::write_fail_delivered; f.at = point - c2b - b2c; }
        f.ec = int(point % 6);
        s.faults.push_back(f);
        s.attempts.clear();
        if (next_attempt) {
            s.attempts.push_back(AttemptPlan{});
            AttemptPlan a;
            if (next_attempt == 1) a.tcp = AttemptPlan::tcp_refused;
            else if (next_attempt == 2) { a.hs = AttemptPlan::hs_refuse_rc; a.refuse_rc = 0x88; }
            else a.hs = AttemptPlan::hs_silent;
            s.attempts.push_back(a);
        }
        s.index = point * 4 + next_attempt;
        return s;
    }
};

Scenario reference_workload(int which, uint64_t seed) {
    Scenario sc; sc.family = "ref" + std::to_string(which); sc.seed = seed;
    sc.net.latency_min = 200 * US; sc.net.latency_max = 200 * US;
    Action r; r.kind = Action::run; sc.script.push_back(r);
    auto pub = [&](vt at, int qos, const char* payload) { Action p; p.kind = Action::publish; p.at = at; p.qos = qos; p.topic = "r"; p.payload = payload; sc.script.push_back(p); };
    auto sub = [&](vt at) { Action s; s.kind = Action::subscribe; s.at = at; s.subs = {{"s/+", 1}, {"q", 2}}; sc.script.push_back(s); };
    auto unsub = [&](vt at) { Action s; s.kind = Action::unsubscribe; s.at = at; s.subs = {{"s/+", 0}}; sc.script.push_back(s); };
    auto inbound = [&](vt at, int qos) { Action b; b.kind = Action::broker_publish; b.at = at; b.qos = qos; b.topic = "i"; b.payload = "in"; sc.script.push_back(b); };
    switch (which) {
        case 0: pub(10 * MS, 1, "a"); pub(10 * MS, 2, "b"); break;
        case 1: sub(10 * MS); unsub(12 * MS); pub(14 * MS, 1, "c"); break;
        case 2: pub(10 * MS, 2, "d"); inbound(11 * MS, 2); pub(12 * MS, 0, "e"); pub(12 * MS, 1, "f"); break;
        case 3: sc.bcfg.caps.receive_maximum = 1; pub(10 * MS, 1, "g"); pub(10 * MS, 2, "h"); pub(10 * MS, 1, "i"); break;
        case 4: sc.bcfg.ack_delay_max = 3 * MS; pub(10 * MS, 2, "j"); pub(10 * MS, 2, "k"); sub(10 * MS); inbound(10 * MS, 1); break;
        default: sc.bcfg.caps.receive_maximum = 2; pub(10 * MS, 2, "l"); pub(11 * MS, 1, "m"); pub(12 * MS, 2, "n"); inbound(12 * MS, 2); inbound(13 * MS, 1); unsub(13 * MS); break;
    }
    sc.end = 1 * SEC + 120 * SEC;
    return sc;
}

Knobs knobs_for(const std::string& family) {
    Knobs k;
    if (family == "c01-mix") { k.inbound = 3; k.qos_w[0] = 0; k.qos_w[1] = 1; k.qos_w[2] = 1; k.authenticator_pct = 10; k.signal_pct = 5; k.inline_followup_pct = 15; }
    else if (family == "c02-mix") { k.faults_max = 3; k.bad_attempts_max = 3; k.authenticator_pct = 10; k.drop_ack_pct = 15; k.signal_pct = 8; k.server_disconnect_pct = 10; k.inline_followup_pct = 10; }
    else if (family == "c03-mix") { k.qos_w[0] = 1; k.qos_w[1] = 1; k.qos_w[2] = 4; k.faults_max = 3; k.rm_choices = {0, 1, 2, 3}; k.signal_pct = 8; k.inline_followup_pct = 25; }
    else if (family == "c04-mix") { k.pubs_max = 4; k.inbound = 8; k.faults_max = 3; k.lose_session_pct = 25; k.subs = 1; k.own_limit_pct = 20; k.server_disconnect_pct = 10; }
    else if (family == "c05-mix") { k.suffix = 15 * SEC; k.signal_pct = 25; k.server_disconnect_pct = 25; k.inline_followup_pct = 20; }
    else if (family == "c06-rm-change") { k.pubs_min = 3; k.pubs_max = 30; k.burst_pct = 80; k.faults_max = 3; k.qos_w[0] = 3; k.big_payload_pct = 0; k.inbound = 0; k.subs = 0; k.rm_change_pct = 100; k.ack_delay_max = 100 * MS; }
    else if (family == "c06-mix") { k.pubs_min = 2; k.pubs_max = 60; k.burst_pct = 70; k.faults_max = 3; k.qos_w[0] = 2; k.big_payload_pct = 2; k.inbound = 0; k.subs = 0; k.signal_pct = 8; k.inline_followup_pct = 10; }
    else if (family == "c07-mix") { k.pubs_min = 4; k.pubs_max = 30; k.burst_pct = 80; k.rm_choices = {1, 1, 2, 3, 4, 8, 65535}; k.signal_pct = 12; k.qos_w[0] = 1; k.faults_max = 2; k.ack_delay_max = 200 * MS; k.inbound = 1; k.subs = 0; k.invalid_pub_pct = 8; k.rm_change_pct = 30; k.inline_followup_pct = 10; }
    else if (family == "c08-mix") { k.pubs_min = 5; k.pubs_max = 40; k.subs = 2; k.unsubs = 2; k.faults_max = 2; k.inbound = 3; k.signal_pct = 12; }
    else if (family == "c11-mix") { k.keep_alive = 2; k.faults_max = 3; k.bad_attempts_max = 3; k.pubs_max = 8; k.ack_delay_max = 500 * MS; k.suffix = 60 * SEC; k.server_disconnect_pct = 15; }
    else if (family == "c13-mix") { k.pubs_max = 4; k.subs = 2; k.faults_max = 3; k.lose_session_pct = 60; k.inbound = 2; k.authenticator_pct = 25; k.suback_all_fail_pct = 25; k.server_disconnect_pct = 10; }
    else if (family == "c14-mix") { k.pubs_max = 2; k.subs = 3; k.unsubs = 2; k.faults_max = 2; k.signal_pct = 10; k.suback_fail_pct = 30; k.suback_all_fail_pct = 10; k.subs = 5; k.unsubs = 4; k.sub_burst_pct = 50; k.ack_delay_max = 150 * MS; }
    else if (family == "c14-hostile") { k.pubs_max = 2; k.subs = 3; k.unsubs = 2; k.faults_max = 1; k.inbound = 0; k.hostile_count_pct = 35; k.hostile_rc_pct = 15; }
    else if (family == "c01-hostile-rc") { k.inbound = 0; k.qos_w[0] = 0; k.qos_w[1] = 1; k.qos_w[2] = 1; k.subs = 0; k.faults_max = 1; k.hostile_rc_pct = 20; }
    return k;
}

void run_mix(Judge& j, const Knobs& k, const std::string& family, uint64_t n) {
    const FamilyCtx& ctx = j.ctx;
    for (uint64_t i = 0; i < n; ++i) {
        if (int(i % ctx.nshards) != ctx.shard) continue;
        vu::Rng rng(ctx.seed * 1000003 + vu::fnv(family) % 100000 + i * 7919);
        Scenario sc = gen_mix(rng, k, family);
        sc.seed = ctx.seed; sc.index = i;
        vu::set_case(sc.family + " seed=" + std::to_string(sc.seed) + " index=" + std::to_string(i));
        auto ex = execute(sc);
        j.judge(sc, *ex);

    }
}

void run_sweep(Judge& j, int nworkloads, bool pairs, const std::vector<int>& next_attempts, bool only_inbound = false) {
    const FamilyCtx& ctx = j.ctx;
    uint64_t idx = 0;
    for (int wl = 0; wl < nworkloads; ++wl) {
        if (only_inbound && wl != 2 && wl != 4 && wl != 5) continue;
        CrashSweep sw; sw.base = reference_workload(wl, ctx.seed);
        sw.measure();
        j.res.count("crash_points_total", sw.points() * next_attempts.size());
        for (size_t p = 0; p < sw.points(); ++p)
            for (int na : next_attempts) {
                if (int(idx++ % ctx.nshards) != ctx.shard) continue;
                Scenario sc = sw.at(p, na);
                sc.family = "sweep-" + sw.base.family;
                vu::set_case(sc.family + " point=" + std::to_string(p) + " next=" + std::to_string(na));
                auto ex = execute(sc);
                j.judge(sc, *ex);
                j.res.count("crash_points_run");
                bool fired = false;
                for (auto& e : ex->world->h.ev) if (e.kind == Ev::fault) fired = true;
                if (fired) j.res.count("crash_points_fired");
            }
        if (pairs) {
            // second fault on the following connection: sampled grid over its byte range
            for (size_t p = 0; p < sw.points(); p += 3)
                for (size_t q = 0; q < sw.c2b + sw.b2c; q += 5) {
                    if (int(idx++ % ctx.nshards) != ctx.shard) continue;
                    Scenario sc = sw.at(p, 0);
                    Fault f; f.conn_ordinal = 1;
                    if (q < sw.c2b) { f.kind = Fault::reset_c2b; f.at = q; } else { f.kind = Fault::reset_b2c; f.at = q - sw.c2b; }
                    f.ec = int(q % 6);
                    sc.faults.push_back(f);
                    sc.family = "sweep2-" + sw.base.family; sc.index = p * 100000 + q;
                    vu::set_case(sc.family + " p=" + std::to_string(p) + " q=" + std::to_string(q));
                    auto ex = execute(sc);
                    j.judge(sc, *ex);
                    j.res.count("crash_point_pairs_run");
                }
        }
    }
}

// ------------------------------------------------------------------------------------------------ idle-point sweep (terminal actions)
void run_idle_sweep(Judge& j, uint64_t nbase, int max_idle, const std::vector<int>& term_kinds, int max_handler = 0, const std::vector<int>& handler_kinds = {}, int max_timer = 0) {
    const FamilyCtx& ctx = j.ctx;
    uint64_t idx = 0;
    Knobs k; k.pubs_max = 6; k.suffix = 12 * SEC; k.span = 1 * SEC; k.faults_max = 1; k.bad_attempts_max = 1; k.big_payload_pct = 0;
    k.rm_choices = {0, 0, 1, 2, 5, 10, 65535}; k.authenticator_pct = 30; k.server_disconnect_pct = 40;
    const uint64_t nmini = 19;   // deterministic small bases on top of the seeded ones (see below)
    // debugging aid: --sweep-bi B [--sweep-pass P] [--sweep-ip N] [--sweep-tk K] re-runs the matching placements only (no sharding)
    const bool dbg = ctx.args.has("sweep-bi");
    const int64_t dbg_bi = dbg ? ctx.args.num("sweep-bi") : -1, dbg_pass = ctx.args.has("sweep-pass") ? ctx.args.num("sweep-pass") : -1,
                  dbg_ip = ctx.args.has("sweep-ip") ? ctx.args.num("sweep-ip") : -1, dbg_tk = ctx.args.has("sweep-tk") ? ctx.args.num("sweep-tk") : -1;
    for (uint64_t bi = 0; bi < nbase + nmini; ++bi) {
        if (dbg && (int64_t)bi != dbg_bi) continue;
        vu::Rng rng(ctx.seed * 31337 + bi * 104729);
        Scenario base = gen_mix(rng, k, "idle-base");
        base.seed = ctx.seed; base.index = bi;
        if (bi >= nbase) {
            // a small base whose every handler boundary fits under the cap: the Server sends a last message and DISCONNECT in one
            // read (fixed latency), with a request outstanding; what a cancel() issued from the receive handler meets
            base = Scenario{}; base.family = "idle-base"; base.seed = ctx.seed; base.index = bi;
            base.net.latency_min = base.net.latency_max = 200 * US;
            int variant = (int)(bi - nbase);     // request outstanding: none / QoS 1 / QoS 2; Server reason code 0x00 / 0x8B
            Action r; r.kind = Action::run; base.script.push_back(r);
            if (variant >= 6 && variant < 10) {
                // re-authentication whose AUTH packet is the only thing in flight: while reconnecting after a connection loss
                // (the write waits for the connection lock) or while a slow write completion is outstanding
                base.ccfg.use_authenticator = true; base.ccfg.auth_method = "SIM-AUTH"; base.broker_auth_rounds = variant % 2;
                if (variant < 8) { Action kx; kx.kind = Action::net_kill; kx.at = 250 * MS; kx.ec = 1; base.script.push_back(kx); }
                else base.net.write_done_delay_max = 400 * MS;
                Action ra; ra.kind = Action::reauth; ra.at = variant < 8 ? 260 * MS : 300 * MS; base.script.push_back(ra);
                base.end = 8 * SEC;
            } else if (variant == 18) {
                // a broker with a small Maximum Packet Size: a DISCONNECT with long properties loses them and nothing else
                base.bcfg.caps.maximum_packet_size = 30;
                Action p; p.kind = Action::publish; p.at = 250 * MS; p.qos = 1; p.topic = "x"; p.payload = "y"; base.script.push_back(p);
                base.end = 8 * SEC;
            } else if (variant >= 16) {
                // a transport whose shutdown never completes, and a terminal action whose packet reaches the wire late: behind a slow
                // write completion (16) or behind a slow connect (17). The 5 s bound of async_disconnect counts from its initiation.
                base.net.shutdown_hangs = true; base.bcfg.linger_after_disconnect = true;
                if (variant == 16) base.net.write_done_delay_min = base.net.write_done_delay_max = 1500 * MS;
                else base.default_attempt.tcp_delay = 1500 * MS;
                Action p; p.kind = Action::publish; p.at = (variant == 16 ? 250 : 1800) * MS; p.qos = 1; p.topic = "x"; p.payload = "y"; base.script.push_back(p);
                base.end = 14 * SEC;
            } else if (variant >= 14) {
                // two publishes written and unacknowledged (slow acknowledgements), the connection is lost on the read side while
                // the sender is idle, the client reconnects: whatever is initiated meanwhile goes behind their retransmissions
                base.bcfg.ack_delay_min = base.bcfg.ack_delay_max = 5 * SEC;
                Action pa; pa.kind = Action::publish; pa.at = 100 * MS; pa.qos = 1; pa.topic = "a"; pa.payload = "A"; base.script.push_back(pa);
                Action pb; pb.kind = Action::publish; pb.at = 101 * MS; pb.qos = 2; pb.topic = "b"; pb.payload = "B"; base.script.push_back(pb);
                Action kx; kx.kind = Action::net_kill; kx.at = 300 * MS; kx.ec = variant % 2; base.script.push_back(kx);
                if (variant % 2) base.net.write_done_delay_min = base.net.write_done_delay_max = 30 * MS;   // writes take a while to complete
                base.end = 12 * SEC;
            } else if (variant >= 10) {
                // acknowledgements overtake slow write completions while inbound messages keep the sender busy
                base.net.write_done_delay_max = variant % 2 ? 400 * MS : 60 * MS; base.net.write_done_delay_min = base.net.write_done_delay_max;   // every write completes that late
                Action p; p.kind = Action::publish; p.at = 250 * MS; p.qos = variant < 12 ? 2 : 1; p.topic = "x"; p.payload = "y"; base.script.push_back(p);
                Action sb; sb.kind = Action::subscribe; sb.at = 250 * MS; sb.subs = {{"s/+", 1}}; base.script.push_back(sb);
                for (int q = 0; q < 3; ++q) { Action in; in.kind = Action::broker_publish; in.at = (252 + 40 * q) * MS; in.qos = 1 + q % 2; in.topic = "i"; in.payload = "in"; base.script.push_back(in); }
                base.end = 8 * SEC;
            } else {
            if (variant % 3) { Action p; p.kind = Action::publish; p.at = 250 * MS; p.qos = variant % 3; p.topic = "x"; p.payload = "y"; base.script.push_back(p); }
            Action d; d.kind = Action::broker_disconnect; d.at = 300 * MS; d.rc = variant / 3 ? 0x8B : 0x00; d.payload = "last words"; base.script.push_back(d);
            if (variant % 2) { Action d2 = d; d2.at = 2 * SEC; base.script.push_back(d2); }
            base.end = 8 * SEC;
            }
        }
        if (bi < nbase) {    // the seeded bases get random slow paths and limits; the small deterministic ones stay as written
        if (rng.chance(1, 3)) { base.net.shutdown_hangs = true; if (rng.chance(1, 2)) base.bcfg.linger_after_disconnect = true; }
        // slow paths: the terminal action then meets a connect in progress, a handshake in flight or a write being drained
        if (rng.chance(1, 3)) base.default_attempt.tcp_delay = (vt)rng.pick(std::vector<vt>{300 * MS, 1500 * MS});
        if (rng.chance(1, 3)) { base.net.latency_min = 50 * MS; base.net.latency_max = (vt)rng.pick(std::vector<vt>{200 * MS, 900 * MS}); }
        if (rng.chance(1, 3)) base.net.write_done_delay_max = (vt)rng.pick(std::vector<vt>{5 * MS, 1500 * MS});
        // a broker with a small Maximum Packet Size: an oversized DISCONNECT loses its properties, nothing else
        if (rng.chance(1, 5)) base.bcfg.caps.maximum_packet_size = (uint32_t)rng.pick(std::vector<int>{30, 50});
        // the client's own receive limit says nothing about what it may send
        if (rng.chance(1, 3)) base.ccfg.connect_props[boost::mqtt5::prop::maximum_packet_size] = (uint32_t)rng.pick(std::vector<int>{40, 60, 100});
        if (rng.chance(1, 5)) { base.attempts.clear(); AttemptPlan a; a.tcp = AttemptPlan::tcp_hang; base.attempts.push_back(a); base.default_attempt = a; }
        }
        // number of idle points / handler boundaries of the undisturbed run
        uint64_t nidle, nhand; std::vector<vt> tinst;
        { auto ex = execute(base); nidle = ex->run.out.idle_points; nhand = ex->run.out.handler_boundaries; tinst = ex->run.out.timer_instants; }
        int limit = (int)std::min<uint64_t>(nidle, max_idle);
        int hlimit = (int)std::min<uint64_t>(nhand, max_handler);
        int tlimit = (int)std::min<uint64_t>(tinst.size(), max_timer);
        // placements: (0, idle point), (1, handler boundary) and (2, the instant a library timer is due: the action runs from a
        // posted handler that is dequeued after the reactor has queued the timer's completion and before that completion runs)
        for (int pass = 0; pass < 3; ++pass) {
            int lim = pass == 0 ? limit : pass == 1 ? hlimit : tlimit;
            const std::vector<int>& kinds = pass == 0 ? term_kinds : handler_kinds;
            for (int ip = 1; ip <= lim; ++ip)
                for (int tk : kinds) {
                    if (pass == 2 && tk > 2 && tk != 4 && tk != 5 && tk != 10 && tk != 11 && tk != 12) continue;
                    if (dbg) { if ((dbg_pass >= 0 && pass != dbg_pass) || (dbg_ip >= 0 && ip != dbg_ip) || (dbg_tk >= 0 && tk != dbg_tk)) continue; }
                    else if (int(idx++ % ctx.nshards) != ctx.shard) continue;
                    Scenario sc = base; sc.family = pass == 0 ? "idle-sweep" : pass == 1 ? "handler-sweep" : "timer-sweep"; sc.index = bi * 1000000 + ip * 10 + tk + (pass ? 500000 : 0) + (pass == 2 ? 200000 : 0);
                    Action a;
                    if (pass == 0) a.idle_index = ip; else if (pass == 1) a.handler_index = ip; else { a.at = tinst[ip - 1]; a.in_handler = true; }
                    auto later = [&](Action x, int offset) { if (pass == 0) x.idle_index = ip + offset; else { x.handler_index = -1; x.idle_index = -1; x.at = -1; } return x; };
                    std::vector<Action> extra;   // pushed after `a`
                    switch (tk) {
                        case 0: a.kind = Action::cancel; break;
                        case 1: a.kind = Action::disconnect; a.rc = 0; break;
                        case 2: a.kind = Action::destroy; break;
                        case 3: {   // cancel, run again, cancel again (idle placement only)
                            a.kind = Action::cancel;
                            Action r2; r2.kind = Action::run; r2.idle_index = ip + 2; extra.push_back(r2);
                            Action p2; p2.kind = Action::publish; p2.qos = 1; p2.topic = "again"; p2.payload = "x"; p2.idle_index = ip + 3; extra.push_back(p2);
                            Action c2; c2.kind = Action::cancel; c2.idle_index = ip + 9; extra.push_back(c2);
                            break;
                        }
                        case 4: {   // per-operation signal on the first request of the script
                            a.kind = Action::signal; a.target = -1; a.sig = rng.pick(std::vector<SigType>{SigType::total, SigType::partial, SigType::terminal});
                            for (size_t q = 0; q < sc.script.size(); ++q) if (sc.script[q].kind == Action::publish || sc.script[q].kind == Action::subscribe || sc.script[q].kind == Action::unsubscribe) { sc.script[q].with_slot = true; a.target = (int)q; break; }
                            break;
                        }
                        case 10: {  // cancellation signal on async_run's own slot: the client is cancelled in place (no fresh service), then run again
                            a.kind = Action::signal; a.target = -1; a.sig = rng.pick(std::vector<SigType>{SigType::terminal, SigType::terminal, SigType::total, SigType::partial});
                            for (size_t q = 0; q < sc.script.size(); ++q) if (sc.script[q].kind == Action::run) { sc.script[q].with_slot = true; a.target = (int)q; break; }
                            if (pass == 0) {
                                Action r2; r2.kind = Action::run; r2.idle_index = ip + 3; extra.push_back(r2);
                                Action p2; p2.kind = Action::publish; p2.qos = 1; p2.topic = "again"; p2.payload = "x"; p2.idle_index = ip + 4; extra.push_back(p2);
                            }
                            break;
                        }
                        case 12: a.kind = Action::publish; a.qos = (int)rng.range(1, 2); a.topic = "edge"; a.payload = "x"; break;   // (not terminal) a request issued at this very point
                        case 11: a.kind = Action::replace; break;   // move-assignment "cancels this client first"
                        case 5: a.kind = Action::disconnect; a.rc = 4; { ref::Prop u; u.id = 0x1F; u.s1 = rng.chance(1, 2) ? "bye" : "bye, and thanks for all the fish: a reason string that is longer than a small packet limit"; a.props.push_back(u); if (rng.chance(1, 2)) { ref::Prop q; q.id = 0x26; q.s1 = "why"; q.s2 = "because"; a.props.push_back(q); } } break;
                        case 6: {   // a request and the terminal action in the same turn: the request's write completion is already queued
                            a.kind = Action::publish; a.qos = (int)rng.range(1, 2); a.topic = "turn"; a.payload = "x";
                            Action c; c.kind = rng.chance(1, 3) ? Action::disconnect : Action::cancel; c.chained = true; extra.push_back(c);
                            break;
                        }
                        case 7: {   // subscribe and the terminal action in the same turn, from inside a handler
                            a.kind = Action::subscribe; a.subs = {{"turn/+", 1}}; a.in_handler = true;
                            Action c; c.kind = Action::cancel; c.chained = true; extra.push_back(c);
                            break;
                        }
                        case 9: {   // several requests and async_disconnect in one turn: the DISCONNECT is queued behind sendable packets
                            a.kind = Action::subscribe; a.subs = {{"q/+", 1}};
                            Action p0; p0.kind = Action::publish; p0.qos = 0; p0.topic = "q0"; p0.payload = "x"; p0.chained = true; extra.push_back(p0);
                            Action p1; p1.kind = Action::publish; p1.qos = 1; p1.topic = "q1"; p1.payload = "x"; p1.chained = true; extra.push_back(p1);
                            Action d; d.kind = Action::disconnect; d.rc = rng.chance(1, 2) ? 0 : 4; d.chained = true; extra.push_back(d);
                            break;
                        }
                        case 8: {   // terminal action, then requests on the closed client (some from inside a handler), then a new run
                            a.kind = Action::cancel;
                            Action p; p.kind = Action::publish; p.qos = 1; p.topic = "late"; p.payload = "x"; p.chained = true; extra.push_back(p);
                            Action p2; p2.kind = Action::publish; p2.qos = 0; p2.topic = "late0"; p2.payload = "x"; p2.idle_index = ip + 1; p2.in_handler = true; extra.push_back(p2);
                            Action s2; s2.kind = Action::subscribe; s2.subs = {{"late/+", 1}}; s2.idle_index = ip + 2; s2.in_handler = rng.chance(1, 2); extra.push_back(s2);
                            Action r2; r2.kind = Action::run; r2.idle_index = ip + 4; extra.push_back(r2);
                            break;
                        }
                    }
                    sc.script.push_back(a);
                    for (auto& x : extra) sc.script.push_back(x);
                    (void)later;
                    vu::set_case(sc.family + " base=" + std::to_string(bi) + " at=" + std::to_string(ip) + " terminal=" + std::to_string(tk));
                    auto ex = execute(sc);
                    size_t nv0 = j.res.violations.size();
                    j.judge(sc, *ex);
                    if (dbg) { for (size_t q = nv0; q < j.res.violations.size(); ++q) printf("SWEEP bi=%llu pass=%d ip=%d tk=%d VIOLATION %s\n", (unsigned long long)bi, pass, ip, tk, j.res.violations[q].key.c_str());
                               if (dbg_ip >= 0) printf("%s\n%s\n", sc.describe().c_str(), ex->world->h.dump(4000).c_str()); }
                    j.res.count("terminal_placements");
                    j.res.count(pass == 0 ? "idle_point_placements" : pass == 1 ? "handler_boundary_placements" : "timer_instant_placements");
                    j.res.count("terminal_kind_" + std::to_string(tk));
                }
        }
    }
}

// requests on a client that is not running (never run / cancelled / disconnected), issued from outside and from inside handlers;
// they belong to the next async_run and must complete exactly once, never inside the initiating call
void run_closed_client(Judge& j, uint64_t n) {
    const FamilyCtx& ctx = j.ctx;
    for (uint64_t i = 0; i < n; ++i) {
        if (int(i % ctx.nshards) != ctx.shard) continue;
        vu::Rng rng(ctx.seed * 8191 + i * 131071 + 3);
        Scenario sc; sc.family = "closed-client"; sc.seed = ctx.seed; sc.index = i;
        int state = (int)rng.below(3);     // 0 never run, 1 after cancel(), 2 after a completed async_disconnect
        vt t = 0;
        if (state >= 1) {
            Action r; r.kind = Action::run; r.at = 0; sc.script.push_back(r);
            Action p; p.kind = Action::publish; p.at = 50 * MS; p.qos = 1; p.topic = "pre"; p.payload = "x"; sc.script.push_back(p);
            Action c; c.kind = state == 1 ? Action::cancel : Action::disconnect; c.at = (vt)rng.range(10 * MS, 300 * MS); sc.script.push_back(c);
            t = 6 * SEC;
        }
        int nops = (int)rng.range(1, 4);
        for (int k = 0; k < nops; ++k) {
            Action a; a.at = t + k * (rng.chance(1, 2) ? 0 : 1 * MS); a.in_handler = rng.chance(1, 2);
            switch (rng.below(4)) {
                case 0: a.kind = Action::publish; a.qos = 0; a.topic = "c0"; a.payload = "x"; break;
                case 1: a.kind = Action::publish; a.qos = (int)rng.range(1, 2); a.topic = "c1"; a.payload = "x"; break;
                case 2: a.kind = Action::subscribe; a.subs = {{"c/+", 1}}; break;
                default: a.kind = Action::unsubscribe; a.subs = {{"c/+", 0}}; break;
            }
            sc.script.push_back(a);
        }
        // an async_receive waiting on the client that is not running, and a cancel() before the next run: cancel() completes whatever
        // is outstanding, on a client that is not running as on any other
        if (state == 0 && rng.chance(1, 2)) {
            sc.auto_receive = false;
            Action rc; rc.kind = Action::receive; rc.at = 0; rc.in_handler = rng.chance(1, 2); sc.script.insert(sc.script.begin(), rc);
            Action c; c.kind = Action::cancel; c.at = t + 500 * MS; sc.script.push_back(c);
            j.res.count("receives_pending_on_a_client_never_run");
        }
        Action r2; r2.kind = Action::run; r2.at = t + 1 * SEC; sc.script.push_back(r2);
        sc.end = t + 20 * SEC;
        vu::set_case(sc.family + " index=" + std::to_string(i));
        auto ex = execute(sc);
        j.judge(sc, *ex);
        j.res.count("closed_client_scenarios");
    }
}

// ------------------------------------------------------------------------------------------------ C11: the connection lock below the client
// Drives the library's autoconnect_stream directly: concurrent read / write / shutdown triggers, slow and silent handshakes,
// connection losses, cancellation of individual operations (hence of individual lock waiters) and cancel-all.
void run_stream_level(Judge& j, uint64_t n) {
    const FamilyCtx& ctx = j.ctx;
    for (uint64_t i = 0; i < n; ++i) {
        if (int(i % ctx.nshards) != ctx.shard) continue;
        vu::Rng rng(ctx.seed * 524287 + i * 8191 + 7);
        bool probe = (i % 2) == 1;   // every other scenario drives reconnect_op itself, with waiters that can be cancelled one by one
        Scenario sc; sc.family = probe ? "c11-reconnect-op" : "c11-stream"; sc.seed = ctx.seed; sc.index = i; sc.stream_mode = probe ? 2 : 1; sc.auto_receive = false;
        sc.ccfg.brokers = rng.chance(1, 3) ? "b0.sim,b1.sim" : "b0.sim";
        int na = (int)rng.range(1, 5);
        for (int k = 0; k < na; ++k) {
            AttemptPlan a;
            switch (rng.below(5)) {
                case 0: a.tcp_delay = (vt)rng.range(20 * MS, 900 * MS); break;       // slow TCP connect
                case 1: a.hs = AttemptPlan::hs_silent; break;                        // 5 s handshake window
                case 2: a.tcp = AttemptPlan::tcp_hang; break;
                case 3: a.tcp = AttemptPlan::tcp_refused; break;
                default: a.tcp_delay = (vt)rng.range(1 * MS, 50 * MS); break;
            }
            sc.attempts.push_back(a);
        }
        sc.default_attempt.tcp_delay = (vt)rng.range(1 * MS, 300 * MS);
        sc.bcfg.ack_delay_max = rng.chance(1, 2) ? (vt)rng.range(1 * MS, 400 * MS) : 0;
        Action o; o.kind = Action::s_open; o.at = 0; sc.script.push_back(o);
        int nops = (int)rng.range(3, 12);
        vt span = (vt)rng.range(1 * SEC, 8 * SEC);
        for (int k = 0; k < nops; ++k) {
            Action a; a.at = (vt)rng.range(0, span); a.with_slot = rng.chance(2, 3);
            if (probe) { a.kind = Action::s_trigger; sc.script.push_back(a); continue; }
            switch (rng.below(5)) {
                case 0: case 1: a.kind = Action::s_read; a.timeout_ms = rng.chance(1, 2) ? -1 : (long long)rng.range(300, 6000); break;
                case 2: case 3: a.kind = Action::s_write; a.payload = std::string("\xC0\x00", 2); break;
                default: a.kind = Action::s_shutdown; break;
            }
            sc.script.push_back(a);
        }
        // cancel individual operations (their lock waits, connects, reads...) at instants close to their initiation
        int nsig = (int)rng.below(4);
        for (int k = 0; k < nsig; ++k) {
            Action g; g.kind = Action::signal; g.target = (int)rng.range(1, nops); g.sig = rng.pick(std::vector<SigType>{SigType::terminal, SigType::partial, SigType::total});
            g.at = sc.script[g.target].at + (vt)rng.range(0, 600 * MS);
            sc.script.push_back(g);
        }
        int nk = (int)rng.below(3);
        for (int k = 0; k < nk; ++k) { Action x; x.kind = Action::net_kill; x.at = (vt)rng.range(100 * MS, span); x.ec = (int)rng.below(6); sc.script.push_back(x); }
        // slow write completions: a write is still pending on the old transport when a read-side failure makes the client replace it
        if (!probe && rng.chance(1, 2)) sc.net.write_done_delay_max = (vt)rng.pick(std::vector<vt>{200 * MS, 1500 * MS});
        if (!probe && rng.chance(1, 2)) { Fault f; f.kind = rng.chance(1, 2) ? Fault::eof_b2c : Fault::reset_b2c; f.conn_ordinal = (int)rng.below(2); f.at = rng.range(5, 12); sc.faults.push_back(f); }
        bool restart = !probe && rng.chance(1, 3);
        if (restart) {
            // what a client stopped through async_run's cancellation slot and run again does to the same stream object:
            // cancel()+close() while a (slow) shutdown / a connection attempt / lock waiters are in progress, then open()
            // and new operations, every one of which must be resolved
            sc.net.shutdown_delay = (vt)rng.range(1 * MS, 500 * MS);
            vt t0 = (vt)rng.range(100 * MS, span);
            if (rng.chance(2, 3)) { Action sh; sh.kind = Action::s_shutdown; sh.at = t0; sc.script.push_back(sh); }
            Action c; c.kind = Action::s_cancel; c.at = t0 + (vt)rng.range(0, 600 * MS); sc.script.push_back(c);
            Action o2; o2.kind = Action::s_open; o2.at = c.at + (rng.chance(1, 2) ? 0 : (vt)rng.range(1 * MS, 700 * MS)); sc.script.push_back(o2);
            int nw = (int)rng.range(1, 3);
            for (int k = 0; k < nw; ++k) { Action wr; wr.kind = rng.chance(1, 3) ? Action::s_read : Action::s_write; wr.timeout_ms = 2000; wr.payload = std::string("\xC0\x00", 2); wr.at = o2.at + (vt)rng.range(0, 3 * SEC); sc.script.push_back(wr); }
            sc.end = o2.at + 150 * SEC;
            j.res.count("stream_restart_scenarios");
        } else {
        if (rng.chance(1, 3)) { Action c; c.kind = Action::s_cancel; c.at = (vt)rng.range(0, span); sc.script.push_back(c); }
        sc.end = span + 25 * SEC;
        }
        vu::set_case(sc.family + " index=" + std::to_string(i));
        auto ex = execute(sc);
        j.judge(sc, *ex);
        j.res.count("stream_level_scenarios");
        for (auto& op : ex->world->h.ops) if (op.signalled) j.res.count("stream_ops_cancelled_individually");
    }
}

// ------------------------------------------------------------------------------------------------ C01: spurious acknowledgements at quiescent points
// Soundness rule: a forged ack is indistinguishable from a real one once the PUBLISH is in flight, so forged acks are sent only
// when nothing is outstanding, no broker byte is undelivered and no client write is pending, for the id the next request will get.
void run_spurious(Judge& j, uint64_t n) {
    const FamilyCtx& ctx = j.ctx;
    for (uint64_t i = 0; i < n; ++i) {
        if (int(i % ctx.nshards) != ctx.shard) continue;
        vu::Rng rng(ctx.seed * 7777777 + i * 31 + 5);
        Scenario sc; sc.family = "c01-spurious"; sc.seed = ctx.seed; sc.index = i;
        sc.net.chunking = rng.pick(std::vector<Chunking>{Chunking::whole, Chunking::bytewise, Chunking::random});
        Action r; r.kind = Action::run; sc.script.push_back(r);
        vt t = 100 * MS;
        int warm = (int)rng.below(3);
        for (int k = 0; k < warm; ++k) { Action p; p.kind = Action::publish; p.at = t; p.qos = (int)rng.range(1, 2); p.topic = "w"; p.payload = "warm"; sc.script.push_back(p); t += 50 * MS; }
        // every earlier exchange is complete by now, so the allocator hands out id 1 next
        t += 2 * SEC;
        int kind = (int)rng.below(5);
        Action sp; sp.kind = Action::spurious_ack; sp.at = t; sp.pkt.pid = 1;
        sp.pkt.type = kind == 0 ? ref::PUBACK : kind == 1 ? ref::PUBREC : kind == 2 ? ref::PUBCOMP : kind == 3 ? ref::SUBACK : ref::UNSUBACK;
        if (sp.pkt.type == ref::SUBACK || sp.pkt.type == ref::UNSUBACK) sp.pkt.rcs = {0};
        if (rng.chance(1, 2)) { ref::Prop u; u.id = 0x1F; u.s1 = "forged"; sp.pkt.props.push_back(u); }
        sc.script.push_back(sp);
        if (kind == 1 && rng.chance(1, 2)) { Action sp2 = sp; sp2.pkt.type = ref::PUBCOMP; sp2.at = t + 1 * MS; sc.script.push_back(sp2); }
        // delay the genuine acknowledgement so that a forged completion would be visible
        sc.bcfg.ack_delay_min = 20 * MS; sc.bcfg.ack_delay_max = 200 * MS;
        Action q; q.at = t + 5 * MS;
        if (kind <= 2) { q.kind = Action::publish; q.qos = kind == 0 ? 1 : 2; q.topic = "x"; q.payload = "real"; }
        else if (kind == 3) { q.kind = Action::subscribe; q.subs = {{"s/+", 1}}; }
        else { q.kind = Action::unsubscribe; q.subs = {{"s/+", 0}}; }
        sc.script.push_back(q);
        sc.end = t + 10 * SEC;
        vu::set_case(sc.family + " index=" + std::to_string(i));
        auto ex = execute(sc);
        j.judge(sc, *ex);
        j.res.count("spurious_ack_scenarios");
    }
}

// ------------------------------------------------------------------------------------------------ C10: configurations and handshake outcome sequences
void run_c10(Judge& j, uint64_t n) {
    const FamilyCtx& ctx = j.ctx;
    for (uint64_t i = 0; i < n; ++i) {
        if (int(i % ctx.nshards) != ctx.shard) continue;
        vu::Rng rng(ctx.seed * 1299709 + i * 15485863 + 11);
        ref::Gen g(rng); g.max_str = 30;
        Scenario sc; sc.family = "c10-config"; sc.seed = ctx.seed; sc.index = i;
        ClientCfg& c = sc.ccfg;
        c.client_id = rng.chance(1, 6) ? "" : g.text(rng.range(1, 23));
        c.username = rng.chance(1, 2) ? g.text(rng.range(1, 20)) : "";
        c.password = rng.chance(1, 2) ? g.text(rng.range(1, 20)) : "";
        c.keep_alive = rng.pick(std::vector<uint16_t>{0, 1, 10, 60, 600, 65535});
        c.has_will = rng.chance(1, 2);
        if (c.has_will) {
            c.will_topic = g.topic(); c.will_payload = payload_for(rng, 0); c.will_qos = (uint8_t)rng.below(3); c.will_retain = rng.chance(1, 2);
            ref::Props wp = g.props(ref::WILL, -1); for (auto& x : wp) if (x.id == 0x01) x.num = 0;
            l2r::from_ref(wp, c.will_props);
        }
        { ref::Props cp = g.props(ref::CONNECT, -1, {0x15, 0x16, 0x27}); l2r::from_ref(cp, c.connect_props); }
        c.use_authenticator = rng.chance(1, 5);
        if (c.use_authenticator) { c.auth_method = "SIM-" + g.text(rng.range(1, 6)); sc.broker_auth_rounds = (int)rng.below(3); }
        // what the broker answers must not leak into later CONNECTs: Server Keep Alive, Receive Maximum, assigned limits
        if (rng.chance(1, 2)) sc.bcfg.caps.server_keep_alive = rng.pick(std::vector<uint16_t>{0, 1, 7, 30, 1200});
        if (rng.chance(1, 3)) sc.bcfg.caps.receive_maximum = (uint16_t)rng.range(1, 20);
        if (rng.chance(1, 4)) sc.bcfg.caps.maximum_packet_size = (uint32_t)rng.range(200, 5000);
        if (rng.chance(1, 4)) sc.bcfg.caps.topic_alias_maximum = (uint16_t)rng.range(0, 10);
        // broker list
        int nh = (int)rng.range(1, 4);
        std::string list;
        c.default_port = rng.chance(1, 2) ? 1883 : (uint16_t)rng.range(1024, 9000);
        for (int h = 0; h < nh; ++h) {
            std::string host = rng.chance(1, 6) ? "nx" + std::to_string(h) + ".sim" : rng.chance(1, 6) ? "multi.sim" : "b" + std::to_string(rng.below(3)) + ".sim";
            std::string port = rng.chance(1, 2) ? std::to_string(rng.range(1000, 60000)) : "";
            std::string item = host + (port.empty() ? "" : ":" + port) + (rng.chance(1, 4) ? "/path" + std::to_string(h) : "");
            if (rng.chance(1, 3)) item = " " + item + (rng.chance(1, 2) ? " " : "");
            list += (h ? "," : "") + item;
            sc.host_list.emplace_back(host, port.empty() ? std::to_string(c.default_port) : port);
        }
        c.brokers = list;
        // outcome sequence per TCP attempt, then good
        int bad = (int)rng.below(7);
        for (int b = 0; b < bad; ++b) sc.attempts.push_back(rng.chance(1, 4) ? AttemptPlan{} : bad_attempt(rng));
        // CONNACKs that are malformed although they have a plausible length, reason code 0 and a parsable property section
        if (rng.chance(1, 4)) {
            AttemptPlan m; m.hs = AttemptPlan::hs_custom;
            m.custom_bytes = rng.pick(std::vector<std::string>{std::string("\x20\x03\x02\x00\x00", 5), std::string("\x2F\x03\x00\x00\x00", 5), std::string("\x20\x05\x00\x00\x00\xAA\xBB", 7),
                                                               std::string("\x21\x03\x00\x00\x00", 5), std::string("\x20\x03\x80\x00\x00", 5), std::string("\x20\x04\x01\x00\x00\x00", 6)});
            sc.attempts.insert(sc.attempts.begin() + (int)rng.below((int)sc.attempts.size() + 1), m);
        }
        // a host list that only contains unresolvable names never connects: that is fine, the rotation is still judged
        Action r; r.kind = Action::run; sc.script.push_back(r);
        Action p; p.kind = Action::publish; p.at = 10 * MS; p.qos = 1; p.topic = "c"; p.payload = "x"; sc.script.push_back(p);
        if (rng.chance(2, 3)) { Fault f; f.kind = Fault::reset_b2c; f.conn_ordinal = 0; f.at = rng.range(8, 40); sc.faults.push_back(f); }
        if (rng.chance(1, 3)) { Fault f; f.kind = Fault::reset_c2b; f.conn_ordinal = 1; f.at = rng.range(30, 80); sc.faults.push_back(f); }
        sc.end = 90 * SEC;
        // the configuration belongs to the client, not to one run: stop (cancel / async_disconnect) and run again
        if (rng.chance(1, 3)) {
            Action st; st.kind = rng.chance(1, 2) ? Action::cancel : Action::disconnect; st.at = (vt)rng.range(40 * SEC, 60 * SEC); sc.script.push_back(st);
            if (rng.chance(1, 2)) {
                // ... and may be changed between two runs: what is given last is what counts, field by field
                sc.has_ccfg2 = true; sc.ccfg2 = c;
                sc.ccfg2.client_id = rng.chance(1, 4) ? "" : g.text(rng.range(1, 23));
                sc.ccfg2.username = rng.chance(1, 2) ? "" : g.text(rng.range(1, 20));
                sc.ccfg2.password = rng.chance(1, 2) ? "" : g.text(rng.range(1, 20));
                sc.ccfg2.keep_alive = rng.pick(std::vector<uint16_t>{0, 5, 60, 1200});
                { ref::Props cp = g.props(ref::CONNECT, -1, {0x15, 0x16, 0x27}); sc.ccfg2.connect_props = {}; l2r::from_ref(cp, sc.ccfg2.connect_props); }
                Action rc; rc.kind = Action::reconfigure; rc.at = st.at + 6 * SEC; sc.script.push_back(rc);
            }
            Action r2; r2.kind = Action::run; r2.at = st.at + 7 * SEC; sc.script.push_back(r2);
            Action p2; p2.kind = Action::publish; p2.at = r2.at + 10 * MS; p2.qos = 1; p2.topic = "c2"; p2.payload = "x"; sc.script.push_back(p2);
            sc.end = r2.at + 60 * SEC;
        }
        vu::set_case(sc.family + " index=" + std::to_string(i));
        auto ex = execute(sc);
        j.judge(sc, *ex);
    }
}

// ------------------------------------------------------------------------------------------------ C12: keep-alive
void run_c12(Judge& j, uint64_t n, int64_t only = -1) {
    const FamilyCtx& ctx = j.ctx;
    for (uint64_t i = 0; i < n; ++i) {
        if (only >= 0 ? (int64_t)i != only : int(i % ctx.nshards) != ctx.shard) continue;
        vu::Rng rng(ctx.seed * 6700417 + i * 257 + 3);
        Scenario sc; sc.family = "c12-keepalive"; sc.seed = ctx.seed; sc.index = i;
        uint16_t K = rng.pick(std::vector<uint16_t>{0, 1, 1, 2, 2, 5, 5, 60, 300, 65535});
        if (K == 65535 && !rng.chance(1, 4)) K = 10;
        sc.ccfg.keep_alive = K;
        unsigned eff = K;
        if (rng.chance(1, 3)) { uint16_t sk = rng.pick(std::vector<uint16_t>{0, 1, 2, 3, 7, 30}); sc.bcfg.caps.server_keep_alive = sk; eff = sk; }
        sc.net.chunking = rng.pick(std::vector<Chunking>{Chunking::whole, Chunking::bytewise, Chunking::random});
        if (rng.chance(1, 3)) sc.net.write_done_delay_max = (vt)rng.range(10 * US, 5 * MS);
        Action r; r.kind = Action::run; sc.script.push_back(r);
        vt unit = eff ? vt(eff) * SEC : 10 * SEC;
        vt talk_until = (vt)rng.range(unit, 6 * unit);
        // traffic while the broker talks: QoS 0 both ways (nothing waits for a reply), at random instants
        int nt = (int)rng.below(12);
        for (int k = 0; k < nt; ++k) {
            if (rng.chance(1, 2)) { Action p; p.kind = Action::publish; p.at = (vt)rng.range(0, talk_until); p.qos = 0; p.topic = "k"; p.payload = "x"; sc.script.push_back(p); }
            else { Action b; b.kind = Action::broker_publish; b.at = (vt)rng.range(0, talk_until); b.qos = 0; b.topic = "k"; b.payload = "y"; sc.script.push_back(b); }
        }
        if (rng.chance(1, 3)) { Action p; p.kind = Action::publish; p.at = (vt)rng.range(0, talk_until / 2); p.qos = 1; p.topic = "k1"; p.payload = "z"; sc.script.push_back(p); }
        // the keep-alive must not depend on what else the CONNACK announced: a small Receive Maximum, with the send window
        // kept full by slow acknowledgements while PINGREQs fall due
        if (rng.chance(1, 3)) {
            int rm = (int)rng.range(1, 3); sc.bcfg.caps.receive_maximum = (uint16_t)rm;
            if (eff && eff <= 5 && rng.chance(1, 2)) {
                sc.bcfg.ack_delay_min = unit * 3 / 2; sc.bcfg.ack_delay_max = unit * 5 / 2;
                for (int q = 0; q < rm + 1; ++q) { Action p; p.kind = Action::publish; p.at = unit / 2 + q * MS; p.qos = (int)rng.range(1, 2); p.topic = "win"; p.payload = "w"; sc.script.push_back(p); }
            }
        }
        if (rng.chance(1, 4)) sc.bcfg.caps.maximum_packet_size = (uint32_t)rng.range(100, 2000);
        if (rng.chance(1, 4)) sc.bcfg.caps.topic_alias_maximum = (uint16_t)rng.range(0, 10);
        int mode = (int)rng.below(3);   // 0: talks for ever, 1: falls silent, 2: silent then talks again
        if (mode >= 1) {
            sc.bcfg.silent_from = talk_until;
            if (mode == 2) sc.bcfg.silent_until = talk_until + (vt)rng.range(unit / 2, 4 * unit);
        }
        if (rng.chance(1, 4)) { Fault f; f.kind = Fault::reset_b2c; f.conn_ordinal = 0; f.at = rng.range(5, 40); sc.faults.push_back(f); }
        // silence that begins in the middle of a packet: the bytes stop after the CONNACK somewhere inside later traffic
        else if (rng.chance(1, 4)) { Fault f; f.kind = Fault::stall_b2c; f.conn_ordinal = (int)rng.below(2); f.at = rng.range(1, 40);   /* bytes after the CONNACK */ sc.faults.push_back(f); }
        sc.end = eff ? talk_until + 8 * unit + 30 * SEC : 3600 * SEC;
        vu::set_case(sc.family + " index=" + std::to_string(i));
        auto ex = execute(sc);
        j.judge(sc, *ex);
        if (mode >= 1 && eff) j.res.count("silence_scenarios");
        for (auto& f : ex->world->faults) if (f.kind == Fault::stall_b2c && f.fired && eff) { j.res.count("midpacket_stalls_with_keepalive"); if (ctx.args.has("list-stalls")) printf("STALL index=%llu\n", (unsigned long long)i); }
        if (only >= 0) printf("%s\n%s\n", sc.describe().c_str(), ex->world->h.dump(3000).c_str());
    }
}

// ------------------------------------------------------------------------------------------------ C15: capabilities
size_t publish_size(const std::string& topic, const std::string& payload, int qos, bool retain, const ref::Props& props) {
    ref::Packet p; p.type = ref::PUBLISH; p.topic = topic; p.payload = payload; p.qos = (uint8_t)qos; p.retain = retain; p.pid = 1; p.props = props;
    return ref::encode(p).size();
}

void run_c15(Judge& j, uint64_t extra_random) {
    const FamilyCtx& ctx = j.ctx;
    uint64_t idx = 0;
    // all 2^6 on/off combinations of the six capabilities x boundary requests
    for (int combo = 0; combo < 64 + (int)extra_random; ++combo) {
        if (int(idx++ % ctx.nshards) != ctx.shard) continue;
        vu::Rng rng(ctx.seed * 999331 + combo * 7 + 1);
        int bits = combo < 64 ? combo : (int)rng.below(64);
        Scenario sc; sc.family = "c15-caps"; sc.seed = ctx.seed; sc.index = combo;
        Caps& cp = sc.bcfg.caps;
        uint32_t mps = 0; unsigned maxqos = 2, tam = 0;
        if (bits & 1) { mps = (uint32_t)rng.pick(std::vector<int>{60, 100, 200, 1000}); cp.maximum_packet_size = mps; }
        if (bits & 2) { maxqos = (unsigned)rng.below(2); cp.maximum_qos = (uint8_t)maxqos; }
        if (bits & 4) cp.retain_available = 0; else if (rng.chance(1, 2)) cp.retain_available = 1;
        if (bits & 8) { tam = (unsigned)rng.pick(std::vector<int>{1, 5, 65535}); cp.topic_alias_maximum = (uint16_t)tam; } else if (rng.chance(1, 2)) cp.topic_alias_maximum = 0;
        if (bits & 16) cp.wildcard_available = 0; else if (rng.chance(1, 2)) cp.wildcard_available = 1;
        if (bits & 32) { cp.shared_available = 0; cp.sub_id_available = 0; } else if (rng.chance(1, 2)) { cp.shared_available = 1; cp.sub_id_available = 1; }
        bool retain_ok = !(bits & 4), wild_ok = !(bits & 16), shared_ok = !(bits & 32);
        Action r; r.kind = Action::run; sc.script.push_back(r);
        vt t = 1 * SEC;
        auto pub = [&](int qos, bool retain, const std::string& suffix, const std::string& payload, ref::Props props, int expect) {
            Action p; p.kind = Action::publish; p.at = t; t += 1 * MS; p.qos = qos; p.retain = retain; p.topic = suffix; p.payload = payload; p.props = props;
            p.expect_immediate = expect != 0; p.expect_ec = expect;
            sc.script.push_back(p);
        };
        auto fits = [&](const std::string& suffix, const std::string& payload, int qos, bool retain, const ref::Props& props) {
            return !mps || publish_size("v/00000/" + suffix, payload, qos, retain, props) <= mps;
        };
        // QoS boundary: max and max+1
        for (unsigned q = 0; q <= 2; ++q) if (fits("q", "p", q, false, {})) pub(q, false, "q", "p", {}, q > maxqos ? 105 : 0);
        // retain
        if (maxqos >= 1 || true) pub(0, true, "r", "p", {}, retain_ok ? 0 : 106);
        // topic alias boundary: max, max+1 (and any alias when the maximum is 0 / absent)
        {
            auto alias = [&](unsigned a) { ref::Props p; ref::Prop x; x.id = 0x23; x.num = a; p.push_back(x); return p; };
            if (tam) { pub(0, false, "a", "p", alias(tam), 0); if (tam < 65535) pub(0, false, "a", "p", alias(tam + 1), 107); pub(0, false, "a", "p", alias(1), 0); }
            else pub(0, false, "a", "p", alias(1), 107);
        }
        // packet size boundary: exactly the limit and one byte more
        if (mps) {
            for (int q = 0; q <= (int)std::min(maxqos, 1u); ++q) {
                size_t base = publish_size("v/00000/s", "", q, false, {});
                if (base < mps) {
                    // largest payload that still fits (the Remaining Length field grows at 128 / 16384)
                    size_t L = mps - base;
                    while (L > 0 && publish_size("v/00000/s", std::string(L, 'x'), q, false, {}) > mps) --L;
                    pub(q, false, "s", std::string(L, 'x'), {}, 0);
                    pub(q, false, "s", std::string(L + 1, 'x'), {}, 101);
                }
            }
        }
        // subscriptions
        auto sub = [&](const std::string& filter, bool raw, ref::Props props, int expect) {
            Action s; s.kind = Action::subscribe; s.at = t; t += 1 * MS; s.subs = {{filter, 1}}; s.raw_topic = raw; s.props = props; s.expect_immediate = expect != 0; s.expect_ec = expect;
            // subscriptions are small; skip them if even the smallest would exceed a tiny Maximum Packet Size
            ref::Packet p; p.type = ref::SUBSCRIBE; p.pid = 1; p.subs = {{raw ? std::string("$share/grp/v/00000/t") : "v/00000/" + filter, 1}}; p.props = props;
            if (mps && ref::encode(p).size() > mps) return;
            sc.script.push_back(s);
        };
        sub("plain/topic", false, {}, 0);
        sub("w/+/x", false, {}, wild_ok ? 0 : 108);
        sub("w/#", false, {}, wild_ok ? 0 : 108);
        sub("$share/grp/{tag}t", true, {}, shared_ok ? 0 : 110);
        { ref::Props p; ref::Prop x; x.id = 0x0B; x.num = 7; p.push_back(x); sub("idf", false, p, shared_ok ? 0 : 109); }
        // lists of filters: one filter the broker disabled spoils the request wherever it stands
        if (!mps || mps >= 200) {
            auto multi = [&](std::vector<std::string> fl, int expect) {
                Action s; s.kind = Action::subscribe; s.at = t; t += 1 * MS; s.raw_topic = true;
                for (auto& f : fl) s.subs.emplace_back(f, 1);
                s.expect_immediate = expect != 0; s.expect_ec = expect; sc.script.push_back(s);
            };
            multi({"{tag}w/#", "{tag}plain"}, wild_ok ? 0 : 108);
            multi({"{tag}p1", "{tag}w/+/x", "{tag}p2"}, wild_ok ? 0 : 108);
            multi({"$share/grp/{tag}t", "{tag}plain"}, shared_ok ? 0 : 110);
            multi({"{tag}plain", "$share/grp/{tag}t2"}, shared_ok ? 0 : 110);
        }
        // SUBSCRIBE / UNSUBSCRIBE size boundary: exactly the limit and one byte more
        if (mps) {
            for (int un = 0; un < 2; ++un) {
                auto size_of = [&](size_t L) { ref::Packet p; p.type = un ? ref::UNSUBSCRIBE : ref::SUBSCRIBE; p.pid = 1; std::string f = "v/00000/" + std::string(L, 'f'); if (un) p.unsubs = {f}; else p.subs = {{f, 1}}; return ref::encode(p).size(); };
                if (size_of(1) >= mps) continue;
                size_t L = mps; while (L > 1 && size_of(L) > mps) --L;
                for (int over = 0; over < 2; ++over) {
                    Action q; q.kind = un ? Action::unsubscribe : Action::subscribe; q.at = t; t += 1 * MS; q.subs = {{std::string(L + over, 'f'), 1}};
                    q.expect_immediate = over; q.expect_ec = over ? 101 : 0;
                    sc.script.push_back(q);
                }
            }
        }
        // Topic Alias 0 is never valid; an empty topic name is valid exactly when an alias (within the maximum) is given
        if (tam && (!mps || mps >= 60)) {
            auto alias = [&](unsigned a) { ref::Props p; ref::Prop x; x.id = 0x23; x.num = a; p.push_back(x); return p; };
            pub(0, false, "a0", "p", alias(0), 100);
            Action e; e.kind = Action::publish; e.at = t; t += 1 * MS; e.qos = 0; e.raw_topic = true; e.topic = ""; e.payload = "aliased"; e.props = alias(1); sc.script.push_back(e);
            Action e2 = e; e2.at = t; t += 1 * MS; e2.props = alias(tam < 65535 ? tam + 1 : 0); e2.expect_immediate = true; e2.expect_ec = tam < 65535 ? 107 : 100; sc.script.push_back(e2);
        }
        // DISCONNECT with properties larger than the limit: properties are dropped, not refused
        if (mps && rng.chance(2, 3)) {
            Action d; d.kind = Action::disconnect; d.at = t + 2 * SEC; d.rc = rng.chance(1, 2) ? 0 : 4;
            int shape = (int)rng.below(3);   // Reason String only / User Properties only / both
            if (shape != 1) { ref::Prop u; u.id = 0x1F; u.s1 = std::string(shape == 0 ? mps + 10 : 8, 'r'); d.props.push_back(u); }
            if (shape != 0) for (int q = 0; q < 3; ++q) { ref::Prop u; u.id = 0x26; u.s1 = "key" + std::to_string(q); u.s2 = std::string(mps / 2 + 5, 'v'); d.props.push_back(u); }
            if (rng.chance(1, 3)) { ref::Prop u; u.id = 0x11; u.num = 30; d.props.push_back(u); }
            sc.script.push_back(d);
        }
        // the capabilities must be honoured whichever way the handshake went
        if (rng.chance(1, 3)) { sc.ccfg.use_authenticator = true; sc.ccfg.auth_method = "SIM-AUTH"; sc.broker_auth_rounds = (int)rng.below(2); }
        sc.end = t + 10 * SEC;
        vu::set_case(sc.family + " combo=" + std::to_string(combo));
        auto ex = execute(sc);
        j.judge(sc, *ex);
        j.res.count("capability_combinations");
    }
    // identifiers are not consumed by refused requests: 70 000 refusals, then 65 535 accepted requests must not overrun
    if (int(idx++ % ctx.nshards) == ctx.shard) {
        Scenario sc; sc.family = "c15-idleak"; sc.seed = ctx.seed;
        sc.bcfg.caps.maximum_qos = 0; sc.bcfg.caps.wildcard_available = 0; sc.bcfg.caps.maximum_packet_size = 60;
        sc.bcfg.silent_after_connack = true;
        sc.auto_receive = false;
        Action r; r.kind = Action::run; sc.script.push_back(r);
        int refused = ctx.thorough ? 70000 : 4000;
        for (int k = 0; k < refused; ++k) {
            Action p; p.at = 1 * SEC;
            switch (k % 4) {   // every kind of refusal: capability, and size (which is only known once the packet, id included, is encoded)
                case 0: p.kind = Action::subscribe; p.subs = {{"a/#", 0}}; p.expect_immediate = true; p.expect_ec = 108; break;
                case 1: p.kind = Action::publish; p.qos = 1 + (k / 4) % 2; p.topic = "x"; p.payload = ""; p.expect_immediate = true; p.expect_ec = 105; break;
                case 2: p.kind = Action::unsubscribe; p.subs = {{std::string(80, 'u'), 0}}; p.expect_immediate = true; p.expect_ec = 101; break;
                default: p.kind = Action::subscribe; p.subs = {{std::string(80, 's'), 0}}; p.expect_immediate = true; p.expect_ec = 101; break;
            }
            sc.script.push_back(p);
        }
        for (int k = 0; k < 65535; ++k) { Action s; s.kind = Action::unsubscribe; s.at = 2 * SEC; s.subs = {{"u", 0}}; sc.script.push_back(s); }
        sc.end = 4 * SEC;
        vu::set_case(sc.family);
        auto ex = execute(sc);
        // judged here: none of the 65 535 accepted requests may have been refused with pid_overrun
        int overruns = 0, accepted = 0;
        for (auto& o : ex->world->h.ops) if (o.kind == OpKind::unsub) { ++accepted; if (o.completions && o.ec.value() == 103 && o.t_done < 3 * SEC) ++overruns; }
        j.res.count("idleak_accepted_requests", accepted);
        if (overruns) j.res.violation("C15", "C15:refused-requests-consume-packet-ids", std::to_string(overruns) + " of 65535 accepted requests were refused with pid_overrun after " + std::to_string(refused) + " refused requests", sc.describe().substr(0, 600));
        j.res.evaluations++;
    }
}

// ------------------------------------------------------------------------------------------------ C16: validation through the public API
struct Frag { const char* s; };
void run_c16_api(Judge& j, uint64_t n) {
    const FamilyCtx& ctx = j.ctx;
    static const std::vector<std::string> frag = {
        "/", "+", "#", "a", "b", "$share", "$share/", "g", "//", "+/", "/+", "/#", "#/", "a+", "+a", "a#", "\xC3\xA9", "\xE2\x82\xAC", "\xF0\x9F\x98\x80",
        "\xC0\xAF", "\xED\xA0\x80", "\xEF\xBF\xBE", "\xC3", "\x80", std::string(1, '\0'), "\x1F", "\x7F", "\xC2\x80", "\xC3\xBE", "\xF4\x90\x80\x80", "topic", " "};
    for (uint64_t i = 0; i < n; ++i) {
        if (int(i % ctx.nshards) != ctx.shard) continue;
        vu::Rng rng(ctx.seed * 40503 + i * 65537 + 9);
        Scenario sc; sc.family = "c16-api"; sc.seed = ctx.seed; sc.index = i;
        // half of the scenarios: an unconnected client (the only endpoint never answers the TCP connect), so that accepted
        // requests stay pending; the other half: a connected client, so that "sends nothing" is observable on a live connection
        bool connected = rng.chance(1, 2);
        AttemptPlan hang; hang.tcp = AttemptPlan::tcp_hang; if (!connected) sc.default_attempt = hang;
        sc.auto_receive = false;
        Action r; r.kind = Action::run; sc.script.push_back(r);
        auto compose = [&]() { std::string s; int parts = (int)rng.range(1, 5); for (int k = 0; k < parts; ++k) s += rng.pick(frag); return s; };
        auto str_ok = [](const std::string& x) { return x.size() <= 65535 && ref::utf8_class(x) == ref::Utf8::clean; };
        vt t = connected ? 1 * SEC : 10 * MS;
        // validation does not depend on what the CONNACK announced: a Topic Alias Maximum (a valid alias must not switch the
        // other property checks off), and a small Maximum Packet Size met by an ill-formed DISCONNECT that exceeds it
        unsigned tam = 0; if (connected && rng.chance(1, 2)) { tam = 10; sc.bcfg.caps.topic_alias_maximum = 10; }
        bool disc_only = connected && rng.chance(1, 6);
        if (disc_only) sc.bcfg.caps.maximum_packet_size = (uint32_t)rng.pick(std::vector<int>{20, 30, 60});
        for (int k = disc_only ? 11 : 0; k < 12; ++k) {
            Action a; a.at = t; t += 1 * MS; a.raw_topic = true;
            int what = disc_only ? 11 : (int)rng.below(12);
            if (what == 11 && k != 11) what = (int)rng.below(11);   // a disconnect only as the last request of the script
            std::string s = compose();
            if (disc_only) while (s.size() < 70) s += compose();
            if (rng.chance(1, 30)) s = std::string(rng.pick(std::vector<size_t>{65535, 65536}), 'a');
            else if (rng.chance(1, 30)) s.clear();
            switch (what) {
                case 7: case 8: {   // subscribe / unsubscribe: user property (key or value under test)
                    a.kind = what == 7 ? Action::subscribe : Action::unsubscribe; a.subs = {{"ok/filter", 1}};
                    int np = (int)rng.range(1, 3), pos = (int)rng.below(np); bool ok = true;
                    for (int q = 0; q < np; ++q) {
                        ref::Prop p; p.id = 0x26; p.s1 = "k" + std::to_string(q); p.s2 = "v";
                        if (q == pos) { (rng.chance(1, 2) ? p.s1 : p.s2) = s; ok = str_ok(s); }
                        a.props.push_back(p);
                    }
                    a.expect_immediate = !ok; a.expect_ec = ok ? 0 : 100;
                    break;
                }
                case 9: {   // empty topic list (a SUBSCRIBE/UNSUBSCRIBE without a filter is a protocol error)
                    a.kind = rng.chance(1, 2) ? Action::subscribe : Action::unsubscribe;
                    a.expect_immediate = true; a.expect_ec = 104;
                    break;
                }
                case 10: {  // publish: a Subscription Identifier is not a property a client may send in PUBLISH
                    a.kind = Action::publish; a.qos = (int)rng.below(3); a.topic = "ok/sid"; a.payload = "p";
                    ref::Prop p; p.id = 0x0B; p.num = rng.pick(std::vector<uint64_t>{1, 5, 268435455}); a.props.push_back(p);
                    if (tam && rng.chance(1, 2)) { ref::Prop al; al.id = 0x23; al.num = rng.range(1, tam); a.props.push_back(al); }
                    a.expect_immediate = true; a.expect_ec = 100;
                    break;
                }
                case 11: {  // disconnect: Reason String / User Property
                    a.kind = Action::disconnect; a.rc = rng.chance(1, 2) ? 0 : 4;
                    ref::Prop p; bool ok = str_ok(s);
                    if (rng.chance(1, 2)) { p.id = 0x1F; p.s1 = s; } else { p.id = 0x26; p.s1 = rng.chance(1, 2) ? s : "k"; p.s2 = p.s1 == s ? "v" : s; }
                    if (rng.chance(1, 2)) { ref::Prop q; q.id = 0x26; q.s1 = "first"; q.s2 = "fine"; a.props.push_back(q); }
                    a.props.push_back(p);
                    a.expect_immediate = !ok; a.expect_ec = ok ? 0 : 100;
                    break;
                }
                case 0: {   // publish: topic name
                    a.kind = Action::publish; a.qos = (int)rng.below(3); a.topic = s; a.payload = "p";
                    bool ok = ref::topic_name_ok(s);
                    a.expect_immediate = !ok; a.expect_ec = ok ? 0 : 104;
                    break;
                }
                case 1: {   // publish: string properties
                    a.kind = Action::publish; a.qos = (int)rng.below(3); a.topic = "ok/topic"; a.payload = "p";
                    ref::Prop p; int which = (int)rng.below(3);
                    bool ok;
                    if (rng.chance(1, 12)) {   // Correlation Data is Binary Data: at most 65535 bytes fit its two-byte length
                        size_t n = rng.pick(std::vector<size_t>{65535, 65536, 70000});
                        p.id = 0x09; p.s1 = std::string(n, 'c'); ok = n <= 65535;
                    } else
                    if (which == 0) { p.id = 0x03; p.s1 = s; ok = s.size() <= 65535 && ref::utf8_class(s) == ref::Utf8::clean; }
                    else if (which == 1) { p.id = 0x08; p.s1 = s; ok = ref::topic_name_ok(s); }
                    else { p.id = 0x26; p.s1 = rng.chance(1, 2) ? s : "k"; p.s2 = p.s1 == s ? "v" : s; ok = s.size() <= 65535 && ref::utf8_class(s) == ref::Utf8::clean; }
                    a.props.push_back(p);
                    if (tam && rng.chance(1, 2)) { ref::Prop al; al.id = 0x23; al.num = rng.range(1, tam); a.props.push_back(al); }
                    a.expect_immediate = !ok; a.expect_ec = ok ? 0 : 100;
                    break;
                }
                case 2: {   // publish: payload declared as UTF-8
                    a.kind = Action::publish; a.qos = 0; a.topic = "ok/utf8"; a.payload = s;
                    ref::Prop p; p.id = 0x01; p.num = 1; a.props.push_back(p);
                    if (rng.chance(1, 6)) {   // Payload Format Indicator is 0 or 1
                        a.props.back().num = rng.pick(std::vector<uint64_t>{2, 3, 255}); a.payload = "plain";
                        a.expect_immediate = true; a.expect_ec = 100;
                        break;
                    }
                    auto cls = ref::utf8_class(s);
                    if (s.size() > 65535) continue;   // don't-care: the 65535 limit of UTF-8 *strings* applied to a payload
                    if (cls == ref::Utf8::ill_formed) { a.expect_immediate = true; a.expect_ec = 100; }
                    else if (cls == ref::Utf8::clean) { a.expect_immediate = false; }
                    else continue;   // control characters / non-characters / NUL in a payload: don't-care
                    break;
                }
                case 3: case 4: {   // subscribe: one to three filters (plain and shared); one ill-formed filter anywhere spoils the request
                    a.kind = Action::subscribe;
                    if (what == 4) s = "$share/" + compose();
                    int nf = (int)rng.range(1, 3), pos = (int)rng.below(nf);
                    bool ok = true;
                    for (int f = 0; f < nf; ++f) {
                        std::string flt = f == pos ? s : rng.pick(std::vector<std::string>{"ok/a", "ok/+/b", "ok/#", "$share/grp/ok/x"});
                        a.subs.emplace_back(flt, (uint8_t)rng.below(3));
                        ok = ok && (flt.rfind("$share/", 0) == 0 ? ref::shared_filter_ok(flt) : ref::topic_filter_ok(flt));
                    }
                    a.expect_immediate = !ok; a.expect_ec = ok ? 0 : 104;
                    break;
                }
                case 5: {   // subscribe: subscription identifier range
                    a.kind = Action::subscribe; a.subs = {{"ok/filter", 1}};
                    ref::Prop p; p.id = 0x0B; p.num = rng.pick(std::vector<uint64_t>{0, 1, 2, 268435454, 268435455, 268435456, 2147483647});
                    a.props.push_back(p);
                    bool ok = p.num >= 1 && p.num <= 268435455;
                    // a SUBSCRIBE carries at most one Subscription Identifier [MQTT 3.8.2.1.2]; the property type of the API can hold several
                    if (rng.chance(1, 4)) { ref::Prop q; q.id = 0x0B; q.num = rng.pick(std::vector<uint64_t>{0, 7, 268435456}); a.props.push_back(q); ok = false; }
                    a.expect_immediate = !ok; a.expect_ec = ok ? 0 : 100;
                    break;
                }
                case 6: {   // unsubscribe: filters, plain and $share forms alike
                    if (rng.chance(1, 4)) s = "$share/" + compose();
                    a.kind = Action::unsubscribe;
                    int nf = (int)rng.range(1, 3), pos = (int)rng.below(nf);
                    for (int f = 0; f < nf; ++f) a.subs.emplace_back(f == pos ? s : std::string("ok/") + char('a' + f), 0);
                    bool ok = s.rfind("$share/", 0) == 0 ? ref::shared_filter_ok(s) : ref::topic_filter_ok(s);
                    a.expect_immediate = !ok; a.expect_ec = ok ? 0 : 104;
                    break;
                }
            }
            sc.script.push_back(a);
        }
        sc.end = connected ? 3 * SEC : 1 * SEC;
        j.res.count(connected ? "api_scenarios_connected" : "api_scenarios_unconnected");
        vu::set_case(sc.family + " index=" + std::to_string(i));
        auto ex = execute(sc);
        j.judge(sc, *ex);
        // valid requests must NOT have been refused: they stay pending until the final cancel (or complete, when connected)
        for (auto& o : ex->world->h.ops) {
            if (o.kind == OpKind::run || o.kind == OpKind::recv) continue;
            if (o.immediate_expected) { j.res.count("api_invalid_requests"); continue; }
            j.res.count("api_valid_requests");
            if (o.completions && o.t_done < sc.end && o.ec && o.ec != boost::asio::error::operation_aborted)
                j.res.violation("C16", "C16:valid-request-refused", "a well-formed request was refused with " + ec_name(o.ec) + ": topic/filter " + vu::hex(o.topic.empty() ? (o.subs.empty() ? (o.unsubs.empty() ? "" : o.unsubs[0]) : o.subs[0].first) : o.topic, 40),
                                  "scenario:\n" + sc.describe() + "\n" + ex->world->h.dump(300));
        }
    }
}

// ------------------------------------------------------------------------------------------------ C08: identifier exhaustion through the real client
void run_exhaustion(Judge& j) {
    const FamilyCtx& ctx = j.ctx;
    if (ctx.shard != 0) return;
    Scenario sc; sc.family = "c08-exhaustion"; sc.seed = ctx.seed;
    sc.bcfg.silent_after_connack = true;    // nothing is acknowledged: every identifier stays in use
    sc.bcfg.only_ack_topics = "/00001/|after";   // once awake, the broker completes one old exchange and the new one
    sc.auto_receive = false;
    Action r; r.kind = Action::run; sc.script.push_back(r);
    for (int k = 0; k < 65535; ++k) { Action p; p.kind = Action::publish; p.at = 1 * SEC; p.qos = 1; p.topic = "e"; p.payload = ""; sc.script.push_back(p); }
    { Action p; p.kind = Action::publish; p.at = 2 * SEC; p.qos = 1; p.topic = "over"; p.payload = ""; sc.script.push_back(p); }
    { Action p; p.kind = Action::subscribe; p.at = 2 * SEC; p.subs = {{"over", 0}}; sc.script.push_back(p); }
    { Action p; p.kind = Action::unsubscribe; p.at = 2 * SEC; p.subs = {{"over", 0}}; sc.script.push_back(p); }
    { Action p; p.kind = Action::publish; p.at = 2 * SEC; p.qos = 2; p.topic = "over2"; p.payload = ""; sc.script.push_back(p); }
    // the broker wakes up and acknowledges one exchange; afterwards a new request must get an identifier again
    { Action w; w.kind = Action::set_silent; w.at = 3 * SEC; w.qos = 0; sc.script.push_back(w); }
    { Action k; k.kind = Action::net_kill; k.at = 3 * SEC + 1 * MS; sc.script.push_back(k); }
    { Action p; p.kind = Action::publish; p.at = 30 * SEC; p.qos = 2; p.topic = "after"; p.payload = ""; sc.script.push_back(p); }
    sc.end = 60 * SEC;
    vu::set_case(sc.family);
    auto ex = execute(sc);
    j.judge(sc, *ex, false, true);
    auto& ops = ex->world->h.ops;
    int overrun_early = 0; bool over_pub = false, over_sub = false, after_ok = false, over_pub_all = true, over_sub_all = true;
    for (auto& o : ops) {
        bool overrun = o.completions && o.ec.category() == boost::mqtt5::client::get_error_code_category() && o.ec.value() == 103;
        if (o.t_init == 1 * SEC && overrun) ++overrun_early;
        if (o.t_init == 2 * SEC && (o.kind == OpKind::pub1 || o.kind == OpKind::pub2)) over_pub = over_pub_all = over_pub_all && overrun;
        if (o.t_init == 2 * SEC && (o.kind == OpKind::sub || o.kind == OpKind::unsub)) over_sub = over_sub_all = over_sub_all && overrun;
        if (o.t_init == 30 * SEC) after_ok = o.completions && !o.ec;
    }
    j.res.count("exhaustion_scenarios");
    std::string rp = "scenario: 65535 QoS 1 publishes against a silent broker, then one publish and one subscribe, then the broker acknowledges everything\n";
    if (overrun_early) j.res.violation("C08", "C08:pid-overrun-before-exhaustion", std::to_string(overrun_early) + " of the first 65535 requests were refused with pid_overrun", rp);
    if (!over_pub || !over_sub) j.res.violation("C08", "C08:no-pid-overrun-at-exhaustion", "with 65535 identifiers in use a further request was not refused with pid_overrun", rp);
    if (!after_ok) j.res.violation("C08", "C08:id-not-reusable-after-completion", "after the outstanding exchanges completed a new QoS 2 publish did not complete", rp);
}

// refused requests must leave the identifier pool as it was: a mix of every refusal path (capability, validation, size - the last
// one is decided after an identifier was taken), then many exchanges outstanding at once against a broker that answers late
void run_c08_refusals(Judge& j, uint64_t n) {
    const FamilyCtx& ctx = j.ctx;
    for (uint64_t i = 0; i < n; ++i) {
        if (int(i % ctx.nshards) != ctx.shard) continue;
        vu::Rng rng(ctx.seed * 48271 + i * 69621 + 13);
        Scenario sc; sc.family = "c08-refusals"; sc.seed = ctx.seed; sc.index = i;
        sc.bcfg.caps.maximum_packet_size = 60; sc.bcfg.caps.maximum_qos = 1; sc.bcfg.caps.wildcard_available = 0;
        sc.bcfg.ack_delay_min = 2 * SEC; sc.bcfg.ack_delay_max = 4 * SEC;
        Action r; r.kind = Action::run; sc.script.push_back(r);
        int nref = (int)rng.range(3, 20);
        for (int k = 0; k < nref; ++k) {
            Action p; p.at = 1 * SEC + k * MS;
            switch (rng.below(6)) {
                case 0: p.kind = Action::subscribe; p.subs = {{"a/#", 0}}; p.expect_immediate = true; p.expect_ec = 108; break;
                case 1: p.kind = Action::publish; p.qos = 2; p.topic = "x"; p.payload = ""; p.expect_immediate = true; p.expect_ec = 105; break;
                case 2: p.kind = Action::unsubscribe; p.subs = {{std::string(80, 'u'), 0}}; p.expect_immediate = true; p.expect_ec = 101; break;
                case 3: p.kind = Action::subscribe; p.subs = {{std::string(80, 's'), 0}}; p.expect_immediate = true; p.expect_ec = 101; break;
                case 4: p.kind = Action::publish; p.qos = 1; p.topic = "big"; p.payload = std::string(80, 'p'); p.expect_immediate = true; p.expect_ec = 101; break;
                default: p.kind = Action::publish; p.qos = 1; p.raw_topic = true; p.topic = "bad/#"; p.payload = "x"; p.expect_immediate = true; p.expect_ec = 104; break;
            }
            sc.script.push_back(p);
        }
        int nacc = (int)rng.range(3, 12);
        for (int k = 0; k < nacc; ++k) {
            Action p; p.at = 1500 * MS + k * MS;
            if (k % 3 == 0) { p.kind = Action::publish; p.qos = 1; p.topic = "ok"; p.payload = "y"; }
            else if (k % 3 == 1) { p.kind = Action::unsubscribe; p.subs = {{"u", 0}}; }
            else { p.kind = Action::subscribe; p.subs = {{"s", 1}}; }
            sc.script.push_back(p);
        }
        sc.end = 12 * SEC;
        vu::set_case(sc.family + " index=" + std::to_string(i));
        auto ex = execute(sc);
        j.judge(sc, *ex);
        j.res.count("refusal_then_concurrency_scenarios");
    }
}

// ------------------------------------------------------------------------------------------------ C19: hostile broker bytes
std::string mutate_packet(vu::Rng& rng, ref::Gen& g, uint8_t type, const ref::Packet* base = nullptr) {
    ref::Packet p = base ? *base : g.server_packet(type);
    if (p.payload.size() > 100) p.payload.resize(100);
    std::string bytes = ref::encode(p);
    std::vector<ref::LenField> fields;
    ref::set_len_trace(&fields);
    ref::decode(bytes, ref::Dir::from_server);
    ref::set_len_trace(nullptr);
    if (!fields.empty() && rng.chance(3, 4)) {
        auto& f = fields[rng.below(fields.size())];
        uint32_t max = f.varint ? 268435455u : 65535u, tv = f.value;
        uint32_t v = rng.pick(std::vector<uint32_t>{0, 1, 2, tv - 1, tv + 1, tv + 2, 127, 128, 16383, 16384, max, max - 1});
        if (v > max) v = max;
        std::string e;
        if (f.varint) ref::put_varint(e, v); else ref::put_u16(e, (uint16_t)v);
        bytes = bytes.substr(0, f.offset) + e + bytes.substr(f.offset + f.width);
    } else {
        size_t pos = rng.below(bytes.size());
        switch (rng.below(4)) { case 0: bytes[pos] = char(rng.below(256)); break; case 1: bytes.erase(pos, rng.range(1, 3)); break; case 2: bytes.insert(pos, 1, char(rng.below(256))); break; default: bytes[pos] ^= char(1 << rng.below(8)); }
        if (bytes.empty()) bytes = std::string("\x40\x00", 2);
    }
    return bytes;
}

struct Sig { std::vector<std::string> wire, app; };

// what the client did, up to and including its reaction to the first malformed packet / server DISCONNECT of the hostile stream
Sig chunk_signature(const Execution& ex) {
    Sig s;
    const History& h = ex.world->h;
    // the hostile stream travels on the connection that received hostile bytes
    int conn = -1;
    for (auto& b : h.bpkts) if (b.kind == BKind::hostile) { conn = b.conn; break; }
    if (conn < 0) return s;
    for (auto& k : h.cpkts) {
        if (k.conn != conn || k.dec.status != ref::Status::ok) continue;
        auto t = k.dec.pkt.type;
        if (t == ref::PINGREQ || t == ref::CONNECT) continue;
        if (t == ref::PUBACK || t == ref::PUBREC || t == ref::PUBCOMP || t == ref::PUBREL || t == ref::DISCONNECT)
            s.wire.push_back(std::string(ref::type_name(t)) + ":" + std::to_string(k.dec.pkt.pid) + ":" + std::to_string(k.dec.pkt.rc));
    }
    for (auto& o : h.ops) if (o.kind == OpKind::recv && o.completions && !o.ec) s.app.push_back(o.r_topic + "|" + std::to_string(vu::fnv(o.r_payload)));
    return s;
}

void run_c19(Judge& j, uint64_t n, int64_t only = -1) {
    const FamilyCtx& ctx = j.ctx;
    static const uint8_t types[] = {ref::CONNACK, ref::PUBLISH, ref::PUBACK, ref::PUBREC, ref::PUBREL, ref::PUBCOMP, ref::SUBACK, ref::UNSUBACK, ref::DISCONNECT, ref::AUTH};
    for (uint64_t i = 0; i < n; ++i) {
        if (only >= 0 ? (int64_t)i != only : int(i % ctx.nshards) != ctx.shard) continue;
        vu::Rng rng(ctx.seed * 2750159 + i * 193 + 17);
        ref::Gen g(rng); g.max_str = 30;
        Scenario base; base.family = "c19-hostile"; base.seed = ctx.seed; base.index = i;
        base.ccfg.keep_alive = 600;     // no keep-alive traffic inside the compared window
        Action r; r.kind = Action::run; base.script.push_back(r);
        int phase = (int)rng.below(5);   // 0: instead of CONNACK, 1: right after CONNACK, 2: with requests awaiting replies, 3: mid QoS 2, 4: mid inbound QoS 2
        bool inbound_q2 = phase == 4; if (inbound_q2) phase = 1;
        std::string hostile;
        if (phase == 0) {
            // handshake: a mutated CONNACK / AUTH / something else instead of the CONNACK, possibly followed by more bytes
            uint8_t t = rng.chance(2, 3) ? ref::CONNACK : rng.chance(1, 2) ? ref::AUTH : types[rng.below(sizeof types)];
            hostile = mutate_packet(rng, g, t);
            if (rng.chance(1, 3)) hostile += mutate_packet(rng, g, types[rng.below(sizeof types)]);
            AttemptPlan a; a.hs = AttemptPlan::hs_custom; a.custom_bytes = hostile;
            base.attempts.push_back(a);
        }
        // with an authenticator configured a server-sent AUTH is part of a re-authentication dialogue, without one it is a protocol error
        if (rng.chance(1, 4)) { base.ccfg.use_authenticator = true; base.ccfg.auth_method = "SIM-AUTH"; base.broker_auth_rounds = (int)rng.below(2); if (phase >= 1 && rng.chance(1, 2)) { Action ra; ra.kind = Action::reauth; ra.at = 150 * MS; base.script.push_back(ra); } }
        uint32_t own_limit = 0;
        if (phase >= 1 && rng.chance(1, 4)) {
            own_limit = (uint32_t)rng.pick(std::vector<int>{60, 126, 127, 128, 129, 130, 131, 200, 300, 1000});
            base.ccfg.connect_props[boost::mqtt5::prop::maximum_packet_size] = own_limit;
        }
        vt t0 = 50 * MS;
        // own requests so that replies can be (mis)matched
        int nreq = (int)rng.range(phase >= 2 ? 1 : 0, 3);
        if (phase >= 2) base.bcfg.silent_from = 0, base.bcfg.silent_until = 400 * MS;    // requests stay unanswered while the hostile bytes arrive
        for (int k = 0; k < nreq; ++k) {
            Action p; p.at = t0 + k * MS;
            int w = (int)rng.below(4);
            if (w <= 1) { p.kind = Action::publish; p.qos = phase == 3 ? 2 : (int)rng.range(1, 2); p.topic = "h"; p.payload = "req"; }
            else if (w == 2) { p.kind = Action::subscribe; p.subs = {{"h/+", 1}}; }
            else { p.kind = Action::unsubscribe; p.subs = {{"h/+", 0}}; }
            base.script.push_back(p);
        }
        if (phase >= 1) {
            // a stream of 1-4 server packets, one of them mutated; valid PUBLISHes before it produce comparable reactions
            int np = (int)rng.range(1, 4), bad = (int)rng.below(np);
            for (int k = 0; k < np; ++k) {
                if (k == bad) {
                    uint8_t t = types[rng.below(sizeof types)];
                    if ((phase >= 2) && rng.chance(1, 2)) {
                        // aim at an outstanding request: reply type with the id the request got (ids start at 1)
                        ref::Packet rp; rp.type = rng.pick(std::vector<uint8_t>{ref::PUBACK, ref::PUBREC, ref::PUBCOMP, ref::SUBACK, ref::UNSUBACK}); rp.pid = (uint16_t)rng.range(1, 3);
                        if (rp.type == ref::SUBACK || rp.type == ref::UNSUBACK) rp.rcs = {0};
                        // full forms carry inner length fields (Property Length, string lengths) for the mutator to break
                        if (rng.chance(1, 2)) { ref::Prop rs; rs.id = 0x1F; rs.s1 = "reason"; rp.props.push_back(rs); ref::Prop up; up.id = 0x26; up.s1 = "k"; up.s2 = "v"; rp.props.push_back(up); }
                        if (rng.chance(1, 3)) {
                            // structurally perfect, semantically malformed: a reason code MQTT 5 does not list for the packet, alone or as
                            // a surplus code next to a valid one
                            uint8_t bad_rc; do bad_rc = (uint8_t)rng.below(256); while (ref::rc_listed(rp.type, bad_rc));
                            if (rp.type == ref::SUBACK || rp.type == ref::UNSUBACK) { if (rng.chance(1, 2)) rp.rcs = {bad_rc}; else if (rng.chance(1, 2)) rp.rcs = {0x00, bad_rc}; else rp.rcs = {bad_rc, 0x00}; }
                            else rp.rc = bad_rc;
                            hostile += ref::encode(rp);
                        } else
                        hostile += mutate_packet(rng, g, rp.type, &rp);
                    } else hostile += mutate_packet(rng, g, t);
                } else {
                    ref::Packet p; p.type = ref::PUBLISH; p.qos = (uint8_t)rng.below(3); p.pid = p.qos ? uint16_t(100 + k) : 0; p.topic = "in/hostile/" + std::to_string(k); p.payload = "ok" + std::to_string(k);
                    hostile += ref::encode(p);
                }
            }
            if (own_limit) {
                // the client announced its own Maximum Packet Size: a well-formed PUBLISH whose total size is at / just above it
                // (in particular: Remaining Length within the limit, total size not). Larger ones are hostile by definition.
                ref::Packet p; p.type = ref::PUBLISH; p.qos = 0; p.topic = "in/hostile/big";
                uint32_t want = own_limit + (uint32_t)rng.range(0, 8) - 3;
                std::string enc;
                for (size_t pl = want > 24 ? want - 24 : 0; pl <= want; ++pl) { p.payload.assign(pl, 'z'); enc = ref::encode(p); if (enc.size() >= want) break; }
                if (rng.chance(1, 2)) hostile += enc; else hostile = enc + hostile;
            }
            if (inbound_q2) {
                // an inbound QoS 2 exchange whose PUBREL arrives mutated (or a PUBLISH with the reserved QoS 3)
                ref::Packet q; q.type = ref::PUBLISH; q.qos = 2; q.pid = 90; q.topic = "in/hostile/q2"; q.payload = "two";
                std::string enc = ref::encode(q);
                if (rng.chance(1, 6)) enc[0] = char(enc[0] | 0x06);
                hostile = enc + hostile;
                ref::Packet rl; rl.type = ref::PUBREL; rl.pid = 90;
                if (rng.chance(2, 3)) { ref::Prop rs; rs.id = 0x1F; rs.s1 = "release"; rl.props.push_back(rs); if (rng.chance(1, 2)) rl.rc = 0x92; }
                Action hb2; hb2.kind = Action::hostile_bytes; hb2.at = 320 * MS; hb2.bytes = mutate_packet(rng, g, ref::PUBREL, &rl); base.script.push_back(hb2);
            }
            Action hb; hb.kind = Action::hostile_bytes; hb.at = 200 * MS; hb.bytes = hostile; base.script.push_back(hb);
        }
        // recovery phase: a request issued afterwards must complete (bounded)
        { Action p; p.kind = Action::publish; p.at = 2 * SEC; p.qos = 1; p.topic = "after"; p.payload = "recovery"; base.script.push_back(p); }
        base.end = 2 * SEC + 90 * SEC;
        Sig sigs[3]; bool have[3] = {false, false, false};
        static const Chunking cks[3] = {Chunking::whole, Chunking::bytewise, Chunking::random};
        for (int c = 0; c < 3; ++c) {
            Scenario sc = base; sc.net.chunking = cks[c];
            // all chunks of the stream arrive at one instant; latency fixed so that the three runs differ in chunking only
            sc.net.latency_min = sc.net.latency_max = 200 * US;
            vu::set_case(sc.family + " index=" + std::to_string(i) + " chunking=" + std::to_string(c) + " hostile=" + vu::hex(hostile, 80));
            auto ex = execute(sc);
            if (only >= 0) printf("===== chunking %d\n%s\n%s\n", c, sc.describe().c_str(), ex->world->h.dump(4000).c_str());
            bool ok = j.judge(sc, *ex, c == 0);
            j.res.count("hostile_runs");
            if (!ok) continue;
            // recovery
            for (auto& o : ex->world->h.ops) if (o.t_init == 2 * SEC && o.kind == OpKind::pub1 && o.completions) j.res.count(!o.ec ? "recovery_publishes_acknowledged" : "recovery_publishes_refused_or_failed");
            for (auto& o : ex->world->h.ops)
                // (a mutated CONNACK can still be a valid one that announces e.g. Maximum Packet Size 1 or Maximum QoS 0: the
                // documented refusal of the request is then the correct outcome)
                if (o.t_init == 2 * SEC && o.kind == OpKind::pub1 && !(o.completions && o.t_done < sc.end && (!o.ec || o.ec.category() == boost::mqtt5::client::get_error_code_category())))
                    j.res.violation("C19", "C19:no-recovery-after-hostile-bytes", "a QoS 1 publish issued 1.8 s after the hostile bytes had not completed 90 virtual seconds later (phase " + std::to_string(phase) + ", chunking " + std::to_string(c) + ")",
                                      "scenario:\n" + sc.describe() + "\nhostile bytes: " + vu::hex(hostile, 200) + "\n" + ex->world->h.dump(700));
            // "A malformed packet never completes a user operation successfully": while the broker is silent (phase >= 2, until
            // 400 ms) the only acknowledgements a request can see are in the hostile bytes. A request that completes successfully in
            // that window must find, among the frames of the hostile stream, a WELL-FORMED acknowledgement of its kind with its
            // packet id, admissible reason codes and one code per topic (a forged but valid acknowledgement is not a malformed one).
            if (phase >= 2) {
                const History& h = ex->world->h;
                std::vector<ref::Packet> good;
                for (size_t off = 0; off < hostile.size();) {
                    auto d = ref::decode(std::string_view(hostile).substr(off), ref::Dir::from_server);
                    if (!d.framed || d.consumed == 0 || off + d.consumed > hostile.size()) break;
                    // structurally sound and every reason code listed for the packet type; what the specification leaves open or the
                    // reference is stricter about (duplicate properties, reserved bits: the don't-care list of the decoder part) is not
                    // held against the client here
                    if (d.status == ref::Status::malformed) {
                        // the decoder part of C19 holds the library to the structural classes only (truncations, Property Length beyond the
                        // packet, unknown / misplaced properties); what it may accept leniently there (ill-formed UTF-8 inside a string,
                        // bytes behind the property section, ...) it may act upon here. Such a frame counts for the request it names.
                        const std::string& er = d.error;
                        bool must_reject = er != "truncated property length" && (er.rfind("truncated", 0) == 0 || er == "property length exceeds packet" || er.rfind("unknown property id", 0) == 0 || er.find("not allowed in") != std::string::npos);
                        uint8_t ty = uint8_t(hostile[off]) >> 4;
                        size_t hl = 1; while (hl < 5 && off + hl < hostile.size() && (uint8_t(hostile[off + hl]) & 0x80)) ++hl; ++hl;
                        if (!must_reject && d.consumed >= hl + 2 && (ty == ref::PUBACK || ty == ref::PUBREC || ty == ref::PUBCOMP || ty == ref::SUBACK || ty == ref::UNSUBACK)) {
                            ref::Packet lp; lp.type = ty; lp.pid = uint16_t(uint8_t(hostile[off + hl]) << 8 | uint8_t(hostile[off + hl + 1])); lp.short_form = 255;
                            good.push_back(lp); j.res.count("leniently_acceptable_hostile_acks");
                        }
                    }
                    if (d.status == ref::Status::ok) {
                        bool listed = true;
                        if (d.pkt.type == ref::SUBACK || d.pkt.type == ref::UNSUBACK) { for (auto x : d.pkt.rcs) if (!ref::rc_listed(d.pkt.type, x)) listed = false; }
                        else if (!ref::rc_listed(d.pkt.type, d.pkt.rc)) listed = false;
                        if (listed) good.push_back(d.pkt);
                    }
                    off += d.consumed;
                }
                for (auto& o : h.ops) {
                    bool pub = o.kind == OpKind::pub1 || o.kind == OpKind::pub2, sub = o.kind == OpKind::sub || o.kind == OpKind::unsub;
                    if ((!pub && !sub) || o.t_init >= 200 * MS) continue;
                    j.res.count("requests_exposed_to_hostile_acknowledgements");
                    if (!o.completions || o.ec || o.t_done >= 400 * MS) continue;
                    char tag[16]; snprintf(tag, sizeof tag, "v/%05d/", o.id);
                    int pid = -1;
                    for (auto& k : h.cpkts) {
                        if (k.dec.status != ref::Status::ok || pid >= 0) continue;
                        auto& q = k.dec.pkt;
                        if (q.type == ref::PUBLISH && q.topic.find(tag) != std::string::npos) pid = q.pid;
                        if (q.type == ref::SUBSCRIBE && !q.subs.empty() && q.subs[0].first.find(tag) != std::string::npos) pid = q.pid;
                        if (q.type == ref::UNSUBSCRIBE && !q.unsubs.empty() && q.unsubs[0].find(tag) != std::string::npos) pid = q.pid;
                    }
                    bool legit = false;
                    for (auto& g : good) {
                        if (g.pid != pid) continue;
                        if (o.kind == OpKind::pub1 && g.type == ref::PUBACK) legit = true;
                        if (o.kind == OpKind::pub2 && (g.type == ref::PUBCOMP || g.type == ref::PUBREC)) legit = true;
                        if (o.kind == OpKind::sub && g.type == ref::SUBACK && (g.short_form == 255 || g.rcs.size() == o.subs.size())) legit = true;
                        if (o.kind == OpKind::unsub && g.type == ref::UNSUBACK && (g.short_form == 255 || g.rcs.size() == o.unsubs.size())) legit = true;
                    }
                    j.res.count(legit ? "requests_completed_by_forged_but_wellformed_ack" : "requests_completed_without_wellformed_ack");
                    if (!legit)
                        j.res.violation("C19", std::string("C19:malformed-packet-completed-operation:") + op_kind_name(o.kind),
                                        std::string(op_kind_name(o.kind)) + " (packet id " + std::to_string(pid) + ") completed successfully at " + std::to_string(o.t_done / 1e6) + " ms although the silent broker's hostile bytes contain no well-formed acknowledgement for it (chunking " + std::to_string(c) + ")",
                                        "scenario:\n" + sc.describe() + "\nhostile bytes: " + vu::hex(hostile, 300) + "\n" + h.dump(400));
                }
            }
            if (phase >= 1) { sigs[c] = chunk_signature(*ex); have[c] = true; }
        }
        if (phase >= 1 && have[0] && have[1] && have[2]) {
            // chunking independence, restricted to reactions up to the first malformed packet / server DISCONNECT:
            // compare the common prefix semantics: the sequences must be equal up to the DISCONNECT the client sends, if any
            auto cut = [](std::vector<std::string> v) { for (size_t k = 0; k < v.size(); ++k) if (v[k].rfind("DISCONNECT", 0) == 0) { v.resize(k + 1); break; } return v; };
            for (int c = 1; c < 3; ++c) {
                if (cut(sigs[0].wire) != cut(sigs[c].wire)) {
                    std::string a, b; for (auto& x : cut(sigs[0].wire)) a += x + " "; for (auto& x : cut(sigs[c].wire)) b += x + " ";
                    j.res.violation("C19", "C19:chunking-dependent-responses", "the client's responses depend on how the same broker bytes are split into reads: whole=[" + a + "] vs chunking " + std::to_string(c) + "=[" + b + "]",
                                      "scenario:\n" + base.describe() + "\nhostile bytes: " + vu::hex(hostile, 300));
                }
            }
            j.res.count("chunking_comparisons");
        }
    }
}


// ------------------------------------------------------------------------------------------------ C20 in situ: the lookups at their call sites
// Every byte value as the reason code of a Server DISCONNECT, of the CONNACK and of a Server AUTH (authenticator configured), on a
// live client. Oracle: a code a Server may send is accepted and reported (logger) with exactly that value; a code MQTT 5 does not
// list for that packet is not acted upon as if it were valid. Listed-but-client-only codes are don't-care.
void run_c20_insitu(Judge& j) {
    const FamilyCtx& ctx = j.ctx;
    uint64_t idx = 0;
    for (int kind = 0; kind < 3; ++kind)
        for (int code = 0; code < 256; ++code) {
            if (int(idx++ % ctx.nshards) != ctx.shard) continue;
            uint8_t rc = (uint8_t)code;
            Scenario sc; sc.family = kind == 0 ? "c20-disconnect" : kind == 1 ? "c20-connack" : "c20-auth"; sc.seed = ctx.seed; sc.index = (uint64_t)code;
            sc.ccfg.keep_alive = 600;
            Action r; r.kind = Action::run; sc.script.push_back(r);
            uint8_t ptype = kind == 0 ? ref::DISCONNECT : kind == 1 ? ref::CONNACK : ref::AUTH;
            bool sendable = ref::rc_sendable(ptype, rc, ref::Dir::from_server), listed = ref::rc_listed(ptype, rc);
            if (kind == 0) { Action a; a.kind = Action::spurious_ack; a.at = 100 * MS; a.pkt.type = ref::DISCONNECT; a.pkt.rc = rc; sc.script.push_back(a); }
            else if (kind == 1) { AttemptPlan a; a.hs = AttemptPlan::hs_refuse_rc; a.refuse_rc = rc; if (rc == 0) a.hs = AttemptPlan::hs_normal; sc.attempts.push_back(a); }
            else {
                sc.ccfg.use_authenticator = true; sc.ccfg.auth_method = "SIM-AUTH"; sc.broker_auth_rounds = 0;
                Action a; a.kind = Action::spurious_ack; a.at = 100 * MS; a.pkt.type = ref::AUTH; a.pkt.rc = rc;
                ref::Prop m; m.id = 0x15; m.s1 = "SIM-AUTH"; a.pkt.props.push_back(m); ref::Prop dt; dt.id = 0x16; dt.s1 = "srv"; a.pkt.props.push_back(dt);
                sc.script.push_back(a);
            }
            sc.end = 3 * SEC;
            vu::set_case(sc.family + " code=" + std::to_string(code));
            auto ex = execute(sc);
            j.res.evaluations++; j.res.count("c20_insitu_cases"); j.res.hash(vu::mix(vu::mix(0xC20, kind), code));
            const History& h = ex->world->h;
            char hex[8]; snprintf(hex, sizeof hex, "0x%02x", code);
            std::string rp = "scenario:\n" + sc.describe() + "\n" + h.dump(200);
            if (ex->run.out.exception || ex->run.out.hang) { j.res.violation("C20", std::string("C20:in-situ:engine:") + sc.family, std::string("exception / livelock with reason code ") + hex, rp); continue; }
            if (kind == 0) {
                int logged = -1; for (auto& e : h.ev) if (e.kind == Ev::log_disconnect) { logged = e.b; break; }
                if (sendable) { j.res.count("c20_insitu_sendable"); if (logged != code) j.res.violation("C20", "C20:in-situ:disconnect-code-not-reported", std::string("Server DISCONNECT with reason code ") + hex + ": the logger was told " + std::to_string(logged), rp); }
                else if (!listed && logged == code) j.res.violation("C20", "C20:in-situ:unlisted-disconnect-code-accepted", std::string("Server DISCONNECT with the unlisted reason code ") + hex + " was reported as if it were valid", rp);
            } else if (kind == 1) {
                int logged = -1; bool est0 = !h.conns.empty() && h.conns[0].established;
                for (auto& e : h.ev) if (e.kind == Ev::log_connack && e.a == 0) { logged = e.b; break; }
                if (sendable) { j.res.count("c20_insitu_sendable"); if (logged != code) j.res.violation("C20", "C20:in-situ:connack-code-not-reported", std::string("CONNACK with reason code ") + hex + ": the logger was told " + std::to_string(logged), rp); }
                else if (!listed && (logged == code || est0)) j.res.violation("C20", "C20:in-situ:unlisted-connack-code-accepted", std::string("CONNACK with the unlisted reason code ") + hex + " was accepted", rp);
                if (rc >= 0x80 && est0) j.res.violation("C20", "C20:in-situ:refusing-connack-established", std::string("CONNACK with reason code ") + hex + " established the connection", rp);
            } else {
                // a Server AUTH the client acts upon makes it call the authenticator and (for 0x18) answer with AUTH 0x18
                int answers = 0, malformed = 0;
                for (auto& k : h.cpkts) if (k.t >= 100 * MS && k.dec.status == ref::Status::ok) { if (k.dec.pkt.type == ref::AUTH) ++answers; if (k.dec.pkt.type == ref::DISCONNECT && (k.dec.pkt.rc == 0x81 || k.dec.pkt.rc == 0x82)) ++malformed; }
                if (sendable) { j.res.count("c20_insitu_sendable"); if (malformed) j.res.violation("C20", "C20:in-situ:auth-code-rejected", std::string("Server AUTH with reason code ") + hex + " (a Server may send it) was answered with a malformed-packet / protocol-error DISCONNECT", rp); if (rc == 0x18 && !answers) j.res.violation("C20", "C20:in-situ:auth-continue-not-answered", "Server AUTH 0x18 was not answered with AUTH", rp); }
                else if (!listed && answers) j.res.violation("C20", "C20:in-situ:unlisted-auth-code-accepted", std::string("Server AUTH with the unlisted reason code ") + hex + " was answered as if it were a valid step", rp);
            }
        }
    // The acknowledgement categories at their call sites: the broker stays silent, so the only acknowledgement the request ever
    // sees is the scripted one carrying the byte under test. kinds: 3 SUBACK {X}, 4 SUBACK {0x00, X} (a surplus byte), 5 UNSUBACK {X},
    // 6 UNSUBACK {0x00, X}, 7 PUBACK X, 8 PUBREC X, 9 PUBCOMP X (after PUBREC 0x00), 10 PUBREL X for an inbound QoS 2 message.
    // Oracle: a code a Server may send is accepted and the handler receives exactly that value (PUBREC < 0x80: the client goes on
    // with PUBREL; PUBREL: the client answers PUBCOMP); a byte MQTT 5 does not list never takes part in a successful completion
    // (nor in a PUBREL / PUBCOMP answer).
    for (int kind = 3; kind <= 10; ++kind)
        for (int code = 0; code < 256; ++code) {
            if (int(idx++ % ctx.nshards) != ctx.shard) continue;
            uint8_t rc = (uint8_t)code;
            static const char* names[] = {"", "", "", "suback", "suback-surplus", "unsuback", "unsuback-surplus", "puback", "pubrec", "pubcomp", "pubrel"};
            Scenario sc; sc.family = std::string("c20-") + names[kind]; sc.seed = ctx.seed; sc.index = (uint64_t)code;
            sc.ccfg.keep_alive = 600; sc.auto_receive = true;
            sc.bcfg.silent_from = 0; sc.bcfg.silent_until = -1;
            Action r; r.kind = Action::run; sc.script.push_back(r);
            uint8_t ptype = kind <= 4 ? ref::SUBACK : kind <= 6 ? ref::UNSUBACK : kind == 7 ? ref::PUBACK : kind == 8 ? ref::PUBREC : kind == 9 ? ref::PUBCOMP : ref::PUBREL;
            bool sendable = ref::rc_sendable(ptype, rc, ref::Dir::from_server), listed = ref::rc_listed(ptype, rc);
            Action q; q.at = 50 * MS;
            if (kind <= 4) { q.kind = Action::subscribe; q.subs = {{"c20/+", 1}}; }
            else if (kind <= 6) { q.kind = Action::unsubscribe; q.subs = {{"c20/+", 0}}; }
            else if (kind <= 9) { q.kind = Action::publish; q.qos = kind == 7 ? 1 : 2; q.topic = "c20"; q.payload = "x"; }
            if (kind <= 9) sc.script.push_back(q);
            auto ack = [&](vt at, uint8_t type, uint16_t pid, std::vector<uint8_t> rcs, uint8_t one) {
                Action a; a.kind = Action::spurious_ack; a.at = at; a.pkt.type = type; a.pkt.pid = pid; a.pkt.rcs = std::move(rcs); a.pkt.rc = one;
                if (one == 0 && a.pkt.rcs.empty()) a.pkt.short_form = 0;
                sc.script.push_back(a);
            };
            if (kind == 3 || kind == 5) ack(100 * MS, ptype, 1, {rc}, 0);
            else if (kind == 4 || kind == 6) ack(100 * MS, ptype, 1, {0x00, rc}, 0);
            else if (kind == 7 || kind == 8) ack(100 * MS, ptype, 1, {}, rc);
            else if (kind == 9) { ack(100 * MS, ref::PUBREC, 1, {}, 0); ack(200 * MS, ref::PUBCOMP, 1, {}, rc); }
            else {
                Action a; a.kind = Action::spurious_ack; a.at = 100 * MS; a.pkt.type = ref::PUBLISH; a.pkt.qos = 2; a.pkt.pid = 90; a.pkt.topic = "in/c20"; a.pkt.payload = "two"; sc.script.push_back(a);
                ack(200 * MS, ref::PUBREL, 90, {}, rc);
            }
            sc.end = 3 * SEC;
            vu::set_case(sc.family + " code=" + std::to_string(code));
            auto ex = execute(sc);
            j.res.evaluations++; j.res.count("c20_insitu_cases"); j.res.hash(vu::mix(vu::mix(0xC20, kind), code));
            const History& h = ex->world->h;
            char hex[8]; snprintf(hex, sizeof hex, "0x%02x", code);
            std::string rp = "scenario:\n" + sc.describe() + "\n" + h.dump(200);
            std::string fam = sc.family.substr(4);
            if (ex->run.out.exception || ex->run.out.hang) { j.res.violation("C20", std::string("C20:in-situ:engine:") + sc.family, std::string("exception / livelock with reason code ") + hex, rp); continue; }
            const OpRec* req = nullptr;
            for (auto& o : h.ops) if (o.kind == OpKind::sub || o.kind == OpKind::unsub || o.kind == OpKind::pub1 || o.kind == OpKind::pub2) { req = &o; break; }
            bool success = req && req->completions && !req->ec;
            int pubrels = 0, pubcomps = 0, malformed = 0;
            for (auto& k : h.cpkts) if (k.dec.status == ref::Status::ok) {
                if (k.dec.pkt.type == ref::PUBREL) ++pubrels;
                if (k.dec.pkt.type == ref::PUBCOMP && k.dec.pkt.pid == 90) ++pubcomps;
                if (k.dec.pkt.type == ref::DISCONNECT && (k.dec.pkt.rc == 0x81 || k.dec.pkt.rc == 0x82)) ++malformed;
            }
            if (kind == 4 || kind == 6) {
                // a surplus byte: whatever it is, the acknowledgement does not fit the request; an unlisted byte that is skipped was accepted
                if (!listed && success) j.res.violation("C20", "C20:in-situ:unlisted-" + fam + "-code-accepted", std::string("an acknowledgement carrying the unlisted reason code ") + hex + " next to a valid one completed the request successfully", rp);
                continue;
            }
            if (kind == 10) {
                if (sendable) { j.res.count("c20_insitu_sendable"); if (!pubcomps || malformed) j.res.violation("C20", "C20:in-situ:pubrel-code-rejected", std::string("PUBREL with reason code ") + hex + " (a Server may send it) was not answered with PUBCOMP", rp); }
                else if (!listed && pubcomps) j.res.violation("C20", "C20:in-situ:unlisted-pubrel-code-accepted", std::string("PUBREL with the unlisted reason code ") + hex + " was answered with PUBCOMP", rp);
                continue;
            }
            if (kind == 8 && rc < 0x80) {
                if (sendable) { j.res.count("c20_insitu_sendable"); if (!pubrels || malformed) j.res.violation("C20", "C20:in-situ:pubrec-code-rejected", std::string("PUBREC with reason code ") + hex + " (a Server may send it) was not followed by PUBREL", rp); }
                else if (!listed && (pubrels || success)) j.res.violation("C20", "C20:in-situ:unlisted-pubrec-code-accepted", std::string("PUBREC with the unlisted reason code ") + hex + " was accepted", rp);
                continue;
            }
            if (sendable) {
                j.res.count("c20_insitu_sendable");
                bool exact = success && req->rcs.size() == 1 && req->rcs[0] == rc;
                if (!exact) j.res.violation("C20", "C20:in-situ:" + fam + "-code-not-reported", fam + " with reason code " + hex + " (a Server may send it): the request " + (success ? "reported another value" : "did not complete successfully"), rp);
            } else if (!listed && success) j.res.violation("C20", "C20:in-situ:unlisted-" + fam + "-code-accepted", fam + " with the unlisted reason code " + hex + " completed the request successfully", rp);
        }
}

}  // namespace

int run_families(const FamilyCtx& ctx, vu::Result& res) {
    Judge j{ctx, res};
    const std::string& P = ctx.prop;
    bool T = ctx.thorough;
    if (ctx.args.has("replay-c12")) { run_c12(j, 1000000, ctx.args.num("replay-c12")); for (auto& v : res.violations) printf("VIOLATION %s %s\n", v.key.c_str(), v.what.c_str()); return 0; }
    if (ctx.args.has("replay-c19")) { run_c19(j, 1000000, ctx.args.num("replay-c19")); for (auto& v : res.violations) printf("VIOLATION %s %s\n", v.key.c_str(), v.what.c_str()); return 0; }
    if (ctx.args.has("replay-mix")) {
        // re-run one generated scenario and print its history: --replay-mix <family> --index N
        std::string fam = ctx.args.str("replay-mix");
        uint64_t i = (uint64_t)ctx.args.num("index", 0);
        vu::Rng rng(ctx.seed * 1000003 + vu::fnv(fam) % 100000 + i * 7919);
        Knobs k = knobs_for(fam);
        Scenario sc = gen_mix(rng, k, fam); sc.seed = ctx.seed; sc.index = i;
        auto ex = execute(sc);
        printf("%s\n%s\n", sc.describe().c_str(), ex->world->h.dump(6000).c_str());
        for (auto& o : ex->world->h.ops)
            printf("op#%d %s init=%.6f done=%.6f n=%d ec=%s topic=%s r_topic=%s\n", o.id, op_kind_name(o.kind), o.t_init / 1e9, o.t_done / 1e9, o.completions, ec_name(o.ec).c_str(), o.topic.c_str(), o.r_topic.c_str());
        j.judge(sc, *ex);
        for (auto& v : res.violations) printf("VIOLATION %s %s\n", v.key.c_str(), v.what.c_str());
        return 0;
    }
    if (P == "C01") {
        Knobs k = knobs_for("c01-mix");
        run_mix(j, k, "c01-mix", T ? 200000 : 4000);
        run_spurious(j, T ? 20000 : 600);
        run_mix(j, knobs_for("c01-hostile-rc"), "c01-hostile-rc", T ? 40000 : 1000);
    } else if (P == "C02") {
        run_sweep(j, T ? 6 : 4, T, T ? std::vector<int>{0, 1, 2, 3} : std::vector<int>{0, 2});
        Knobs k = knobs_for("c02-mix");
        run_mix(j, k, "c02-mix", T ? 60000 : 1500);
        // a new publish at every handler boundary / idle point of bases with connection losses (for instance between a transport
        // swap and the resend pass): the outstanding older ones must be on the new connection first
        run_idle_sweep(j, T ? 20 : 4, T ? 150 : 60, {12}, T ? 400 : 150, {12}, 0);
    } else if (P == "C03") {
        run_sweep(j, T ? 6 : 3, false, {0});
        Knobs k = knobs_for("c03-mix");
        run_mix(j, k, "c03-mix", T ? 150000 : 2500);
        // acknowledgements the client has to reject (reason codes MQTT 5 does not list for them): the retransmission that follows
        // the DISCONNECT is a retransmission like any other (DUP, same bytes, same id)
        run_mix(j, knobs_for("c01-hostile-rc"), "c01-hostile-rc", T ? 40000 : 800);
    } else if (P == "C04") {
        run_sweep(j, T ? 6 : 6, false, {0}, /*only_inbound=*/true);
        Knobs k = knobs_for("c04-mix");
        run_mix(j, k, "c04-mix", T ? 150000 : 3000);
    } else if (P == "C05") {
        run_idle_sweep(j, T ? 40 : 4, T ? 200 : 90, {0, 1, 2, 3, 4, 5, 6, 7, 8, 10, 11}, T ? 400 : 150, {0, 1, 2, 6, 10, 11}, T ? 300 : 80);
        run_closed_client(j, T ? 20000 : 600);
        Knobs k = knobs_for("c05-mix");
        run_mix(j, k, "c05-mix", T ? 50000 : 1000);
    } else if (P == "C06") {
        Knobs k = knobs_for("c06-mix");
        run_mix(j, k, "c06-mix", T ? 150000 : 3000);
        run_mix(j, knobs_for("c06-rm-change"), "c06-rm-change", T ? 60000 : 1500);
        // a publish initiated at every handler boundary (between a transport swap and the resend pass, for instance) and at
        // every idle point of seeded bases with connection losses: it must not overtake the retransmissions of older ones
        run_idle_sweep(j, T ? 20 : 4, T ? 150 : 60, {12}, T ? 400 : 150, {12}, 0);
    } else if (P == "C07") {
        Knobs k = knobs_for("c07-mix");
        run_mix(j, k, "c07-mix", T ? 150000 : 3000);
    } else if (P == "C08") {
        Knobs k = knobs_for("c08-mix");
        run_mix(j, k, "c08-mix", T ? 100000 : 2000);
        run_exhaustion(j);
        run_spurious(j, T ? 6000 : 400);          // surplus acknowledgements: an id is not free before its own exchange was acknowledged
        run_c08_refusals(j, T ? 40 : 8);          // refused requests (every refusal path) followed by concurrent exchanges
    } else if (P == "C09") {
        run_idle_sweep(j, T ? 60 : 8, T ? 200 : 90, {1, 5, 9}, T ? 400 : 120, {1, 5, 9}, T ? 200 : 40);
    } else if (P == "C10") {
        run_c10(j, T ? 150000 : 3000);
    } else if (P == "C11") {
        Knobs k = knobs_for("c11-mix");
        run_mix(j, k, "c11-mix", T ? 150000 : 3000);
        run_idle_sweep(j, T ? 20 : 3, T ? 150 : 60, {0, 3}, T ? 300 : 100, {0});
        run_stream_level(j, T ? 150000 : 4000);
    } else if (P == "C12") {
        run_c12(j, T ? 100000 : 2000);
    } else if (P == "C15") {
        run_c15(j, T ? 20000 : 400);
    } else if (P == "C16") {
        run_c16_api(j, T ? 100000 : 2000);
    } else if (P == "C17") {
        // every packet the real client writes in these workloads goes through the independent decoder
        run_mix(j, knobs_for("c01-mix"), "c01-mix", T ? 30000 : 1200);
        run_mix(j, knobs_for("c14-mix"), "c14-mix", T ? 30000 : 800);
        run_mix(j, knobs_for("c04-mix"), "c04-mix", T ? 30000 : 800);
        run_c10(j, T ? 30000 : 1200);
        run_c15(j, T ? 2000 : 100);      // DISCONNECTs with every property shape under small Maximum Packet Size limits
        run_idle_sweep(j, T ? 10 : 2, T ? 100 : 40, {1, 5});   // DISCONNECT with reason code and Reason String in many client states
    } else if (P == "C18") {
        // well-formed broker packets in situ: conformant broker with every acknowledgement shape and rich inbound PUBLISH properties
        run_mix(j, knobs_for("c01-mix"), "c01-mix", T ? 30000 : 800);
        run_mix(j, knobs_for("c04-mix"), "c04-mix", T ? 30000 : 800);
        run_mix(j, knobs_for("c14-mix"), "c14-mix", T ? 30000 : 800);
        run_c10(j, T ? 10000 : 400);
    } else if (P == "C20") {
        run_c20_insitu(j);
    } else if (P == "C19") {
        run_c19(j, T ? 60000 : 1000);
    } else if (P == "C13") {
        Knobs k = knobs_for("c13-mix");
        run_mix(j, k, "c13-mix", T ? 150000 : 3000);
    } else if (P == "C14") {
        Knobs k = knobs_for("c14-mix");
        run_mix(j, k, "c14-mix", T ? 150000 : 3000);
        run_mix(j, knobs_for("c14-hostile"), "c14-hostile", T ? 60000 : 1500);
        run_spurious(j, T ? 20000 : 600);
    } else {
        res.harness_error = "no simulator family for " + P;
        return 2;
    }
    if (!res.harness_error.empty()) return 2;
    return res.violations.empty() ? 0 : 1;
}

}  // namespace sim
