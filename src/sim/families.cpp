#include "sim/families.hpp"

#include <algorithm>
#include <sstream>

#include "ref/gen.hpp"
#include "sim/monitors.hpp"

namespace sim {

namespace {

// ------------------------------------------------------------------------------------------------ judging one run
struct Judge {
    const FamilyCtx& ctx; vu::Result& res;
    uint64_t cases = 0;

    // returns true if the scenario ran to its end (not aborted by the engine)
    bool judge(const Scenario& sc, Execution& ex, bool count_shape = true) {
        ++cases;
        res.evaluations++;
        Verdicts v;
        monitor_engine(ex.run, v, res);
        monitor_all(ex.run, v, res);
        if (count_shape) res.hash(trace_shape(ex.run));
        res.count("connections", ex.world->h.conns.size());
        res.count("client_packets", ex.world->h.cpkts.size());
        res.count("broker_packets", ex.world->h.bpkts.size());
        res.count("operations", ex.world->h.ops.size());
        res.count("idle_points", ex.run.out.idle_points);
        for (auto& c : ex.world->h.conns) if (c.faulted) res.count("connections_lost_to_faults");
        if (ex.run.out.harness_failure) { res.harness_error = ex.run.out.harness_what; return false; }
        for (auto& f : v.findings) {
            std::string prop = f.prop, key = f.key;
            if (prop == "ENGINE") {
                // exceptions / livelocks / assertions: violations of the properties that promise their absence or that
                // cannot hold without progress; for the others the run is inconclusive
                if (ctx.prop == "C19" || ctx.prop == "C05" || ctx.prop == "C02") { prop = ctx.prop; key = ctx.prop + ":" + f.key; }
                else { res.harness_error = "inconclusive: scenario aborted by the engine (" + f.key + "): " + f.what; continue; }
            }
            std::string replay = "scenario:\n" + sc.describe() + "\nfinding: " + f.what + "\n\nhistory:\n" + ex.world->h.dump(900);
            if (prop == ctx.prop) res.violation(prop, key, f.what + " [family " + sc.family + " seed " + std::to_string(sc.seed) + " index " + std::to_string(sc.index) + "]", replay);
            else if (res.notes.size() < 8) res.notes.push_back("NOTE " + prop + " monitor: " + key + ": " + f.what.substr(0, 160));
        }
        return !(ex.run.out.exception || ex.run.out.hang);
    }
};

// ------------------------------------------------------------------------------------------------ generic workload
struct Knobs {
    int pubs_min = 1, pubs_max = 10;
    int qos_w[3] = {1, 2, 2};
    int subs = 1, unsubs = 0, inbound = 2;
    bool rich_props = true;
    int big_payload_pct = 5;
    std::vector<int> rm_choices = {0, 0, 1, 2, 3, 5, 65535};
    vt ack_delay_max = 20 * MS;
    int faults_max = 2;
    int bad_attempts_max = 2;
    int lose_session_pct = 20;
    vt span = 2 * SEC;
    int burst_pct = 30;
    int fail_rc_pct = 5, alt_rc_pct = 5, ack_props_pct = 30;
    vt suffix = 120 * SEC;
    int keep_alive = 60;
    bool conformant = true;
};

ref::Props pub_props(vu::Rng& rng, bool rich) {
    ref::Props p;
    if (!rich || rng.chance(1, 3)) return p;
    ref::Gen g(rng); g.max_str = 40;
    // everything except Topic Alias (needs a broker limit) and Subscription Identifier (not allowed from a client)
    p = g.props(ref::PUBLISH, -1, {0x23, 0x0B});
    for (auto& x : p) if (x.id == 0x01) x.num = 0;   // payload format indicator 1 would require UTF-8 payloads
    return p;
}

std::string payload_for(vu::Rng& rng, int big_pct) {
    size_t n = rng.chance(1, 8) ? 0 : rng.range(1, 60);
    if ((int)rng.below(100) < big_pct) n = rng.pick(std::vector<size_t>{127, 128, 300, 16383, 16384, 20000, 70000});
    std::string s(n, 0);
    for (size_t i = 0; i < n; ++i) s[i] = char(i < 48 ? rng.below(256) : 'a' + (i % 23));
    return s;
}

AttemptPlan bad_attempt(vu::Rng& rng) {
    AttemptPlan a;
    switch (rng.below(6)) {
        case 0: a.tcp = AttemptPlan::tcp_refused; break;
        case 1: a.tcp = AttemptPlan::tcp_hang; break;
        case 2: a.hs = AttemptPlan::hs_silent; break;
        case 3: a.hs = AttemptPlan::hs_refuse_rc; a.refuse_rc = rng.pick(std::vector<uint8_t>{0x80, 0x87, 0x88, 0x89, 0x97, 0x9F}); break;
        case 4: a.hs = AttemptPlan::hs_close; break;
        case 5: a.tcp = AttemptPlan::tcp_unreachable; break;
    }
    return a;
}

Scenario gen_mix(vu::Rng& rng, const Knobs& k, const std::string& family) {
    Scenario sc; sc.family = family;
    sc.ccfg.keep_alive = (uint16_t)k.keep_alive;
    sc.ccfg.client_id = "c" + std::to_string(rng.below(1000));
    int rm = rng.pick(k.rm_choices);
    if (rm > 0) sc.bcfg.caps.receive_maximum = (uint16_t)rm;
    sc.bcfg.ack_delay_max = k.ack_delay_max ? (vt)rng.range(0, k.ack_delay_max) : 0;
    sc.bcfg.lose_session_pct = k.lose_session_pct;
    sc.bcfg.fail_rc_pct = k.fail_rc_pct; sc.bcfg.alt_success_rc_pct = k.alt_rc_pct; sc.bcfg.ack_props_pct = k.ack_props_pct;
    sc.net.chunking = rng.pick(std::vector<Chunking>{Chunking::whole, Chunking::whole, Chunking::bytewise, Chunking::random});
    if (rng.chance(1, 4)) sc.net.write_done_delay_max = (vt)rng.range(10 * US, 3 * MS);
    if (rng.chance(1, 4)) { sc.net.latency_min = 1 * MS; sc.net.latency_max = (vt)rng.range(2 * MS, 80 * MS); }
    Action r; r.kind = Action::run; r.at = 0; sc.script.push_back(r);
    int npubs = (int)rng.range(k.pubs_min, k.pubs_max);
    vt t = (vt)rng.range(0, 50 * MS);
    int wsum = k.qos_w[0] + k.qos_w[1] + k.qos_w[2];
    for (int i = 0; i < npubs; ++i) {
        Action p; p.kind = Action::publish;
        int x = (int)rng.below(wsum); p.qos = x < k.qos_w[0] ? 0 : x < k.qos_w[0] + k.qos_w[1] ? 1 : 2;
        p.retain = rng.chance(1, 5);
        p.topic = "t" + std::to_string(rng.below(4));
        p.payload = payload_for(rng, k.big_payload_pct);
        p.props = pub_props(rng, k.rich_props);
        if ((int)rng.below(100) >= k.burst_pct) t += (vt)rng.range(0, k.span / std::max(1, npubs));
        p.at = t;
        sc.script.push_back(p);
    }
    for (int i = 0; i < k.subs; ++i) {
        Action s; s.kind = Action::subscribe; s.at = (vt)rng.range(0, k.span);
        int n = (int)rng.range(1, 3);
        for (int j = 0; j < n; ++j) s.subs.emplace_back("f" + std::to_string(j) + "/" + rng.pick(std::vector<std::string>{"a/+", "b/#", "c", "+/x", "d/e/f", "#"}), uint8_t(rng.below(3) | (rng.below(2) << 2) | (rng.below(2) << 3) | (rng.below(3) << 4)));
        if (rng.chance(1, 3)) { ref::Prop u; u.id = 0x26; u.s1 = "k"; u.s2 = "v"; s.props.push_back(u); }
        if (rng.chance(1, 4)) { ref::Prop u; u.id = 0x0B; u.num = rng.range(1, 268435455); s.props.push_back(u); }
        sc.script.push_back(s);
    }
    for (int i = 0; i < k.unsubs; ++i) {
        Action s; s.kind = Action::unsubscribe; s.at = (vt)rng.range(0, k.span);
        int n = (int)rng.range(1, 3);
        for (int j = 0; j < n; ++j) s.subs.emplace_back("u/" + std::to_string(j) + "/+", 0);
        sc.script.push_back(s);
    }
    for (int i = 0; i < k.inbound; ++i) {
        Action b; b.kind = Action::broker_publish; b.at = (vt)rng.range(0, k.span); b.qos = (int)rng.below(3); b.topic = "m" + std::to_string(i);
        b.payload = payload_for(rng, 2); b.retain = rng.chance(1, 6);
        if (rng.chance(1, 3)) { ref::Gen g(rng); g.max_str = 30; b.props = g.props(ref::PUBLISH, -1, {0x23}); }
        sc.script.push_back(b);
    }
    // faults: byte offsets are drawn against a rough estimate of the traffic; misses simply do not fire
    int nf = (int)rng.below(k.faults_max + 1);
    for (int i = 0; i < nf; ++i) {
        Fault f; f.kind = rng.pick(std::vector<Fault::Kind>{Fault::reset_c2b, Fault::reset_c2b, Fault::reset_b2c, Fault::reset_b2c, Fault::eof_b2c, Fault::write_fail_delivered});
        f.conn_ordinal = i; f.at = rng.range(0, 30 + 40 * npubs); f.ec = (int)rng.below(6);
        sc.faults.push_back(f);
    }
    int nb = (int)rng.below(k.bad_attempts_max + 1);
    // bad attempts are placed after the first good connection so that the workload meets them while reconnecting
    sc.attempts.clear();
    if (nb) {
        int pos = (int)rng.below(3);
        for (int i = 0; i < pos; ++i) sc.attempts.push_back(AttemptPlan{});
        for (int i = 0; i < nb; ++i) sc.attempts.push_back(bad_attempt(rng));
    }
    sc.end = k.span + k.suffix;
    return sc;
}

// ------------------------------------------------------------------------------------------------ crash-point sweep
// Runs `base` fault-free to learn how many bytes cross the first connection in each direction, then yields one
// scenario per crash point (and per outcome of the following connection attempt).
struct CrashSweep {
    Scenario base; size_t c2b = 0, b2c = 0; bool measured = false;
    void measure() {
        Scenario s = base; s.faults.clear(); s.attempts.clear();
        auto ex = execute(s);
        for (auto& c : ex->world->h.conns) if (c.tcp_ok) { c2b = c.c2b_bytes; b2c = c.b2c_bytes; break; }
        measured = true;
    }
    size_t points() const { return c2b + b2c + c2b; }   // reset c2b at k, reset b2c at k, write-fail-delivered at k
    Scenario at(size_t point, int next_attempt) const {
        Scenario s = base;
        Fault f; f.conn_ordinal = 0;
        if (point < c2b) { f.kind = Fault::reset_c2b; f.at = point; }
        else if (point < c2b + b2c) { f.kind = Fault::reset_b2c; f.at = point - c2b; }
        else { f.kind = Fault::write_fail_delivered; f.at = point - c2b - b2c; }
        f.ec = int(point % 6);
        s.faults.push_back(f);
        s.attempts.clear();
        if (next_attempt) {
            s.attempts.push_back(AttemptPlan{});
            AttemptPlan a;
            if (next_attempt == 1) a.tcp = AttemptPlan::tcp_refused;
            else if (next_attempt == 2) { a.hs = AttemptPlan::hs_refuse_rc; a.refuse_rc = 0x88; }
            else a.hs = AttemptPlan::hs_silent;
            s.attempts.push_back(a);
        }
        s.index = point * 4 + next_attempt;
        return s;
    }
};

Scenario reference_workload(int which, uint64_t seed) {
    Scenario sc; sc.family = "ref" + std::to_string(which); sc.seed = seed;
    sc.net.latency_min = 200 * US; sc.net.latency_max = 200 * US;
    Action r; r.kind = Action::run; sc.script.push_back(r);
    auto pub = [&](vt at, int qos, const char* payload) { Action p; p.kind = Action::publish; p.at = at; p.qos = qos; p.topic = "r"; p.payload = payload; sc.script.push_back(p); };
    auto sub = [&](vt at) { Action s; s.kind = Action::subscribe; s.at = at; s.subs = {{"s/+", 1}, {"q", 2}}; sc.script.push_back(s); };
    auto unsub = [&](vt at) { Action s; s.kind = Action::unsubscribe; s.at = at; s.subs = {{"s/+", 0}}; sc.script.push_back(s); };
    auto inbound = [&](vt at, int qos) { Action b; b.kind = Action::broker_publish; b.at = at; b.qos = qos; b.topic = "i"; b.payload = "in"; sc.script.push_back(b); };
    switch (which) {
        case 0: pub(10 * MS, 1, "a"); pub(10 * MS, 2, "b"); break;
        case 1: sub(10 * MS); unsub(12 * MS); pub(14 * MS, 1, "c"); break;
        case 2: pub(10 * MS, 2, "d"); inbound(11 * MS, 2); pub(12 * MS, 0, "e"); pub(12 * MS, 1, "f"); break;
        case 3: sc.bcfg.caps.receive_maximum = 1; pub(10 * MS, 1, "g"); pub(10 * MS, 2, "h"); pub(10 * MS, 1, "i"); break;
        case 4: sc.bcfg.ack_delay_max = 3 * MS; pub(10 * MS, 2, "j"); pub(10 * MS, 2, "k"); sub(10 * MS); inbound(10 * MS, 1); break;
        default: sc.bcfg.caps.receive_maximum = 2; pub(10 * MS, 2, "l"); pub(11 * MS, 1, "m"); pub(12 * MS, 2, "n"); inbound(12 * MS, 2); inbound(13 * MS, 1); unsub(13 * MS); break;
    }
    sc.end = 1 * SEC + 120 * SEC;
    return sc;
}

Knobs knobs_for(const std::string& family) {
    Knobs k;
    if (family == "c01-mix") { k.inbound = 3; k.qos_w[0] = 0; k.qos_w[1] = 1; k.qos_w[2] = 1; }
    else if (family == "c02-mix") { k.faults_max = 3; k.bad_attempts_max = 3; }
    else if (family == "c03-mix") { k.qos_w[0] = 1; k.qos_w[1] = 1; k.qos_w[2] = 4; k.faults_max = 3; k.rm_choices = {0, 1, 2, 3}; }
    else if (family == "c04-mix") { k.pubs_max = 4; k.inbound = 8; k.faults_max = 3; k.lose_session_pct = 25; k.subs = 1; }
    else if (family == "c05-mix") { k.suffix = 15 * SEC; }
    else if (family == "c06-mix") { k.pubs_min = 2; k.pubs_max = 60; k.burst_pct = 70; k.faults_max = 3; k.qos_w[0] = 2; k.big_payload_pct = 2; k.inbound = 0; k.subs = 0; }
    else if (family == "c07-mix") { k.pubs_min = 4; k.pubs_max = 30; k.burst_pct = 80; k.rm_choices = {1, 1, 2, 3, 4, 8, 65535}; k.qos_w[0] = 1; k.faults_max = 2; k.ack_delay_max = 200 * MS; k.inbound = 1; k.subs = 0; }
    else if (family == "c08-mix") { k.pubs_min = 5; k.pubs_max = 40; k.subs = 2; k.unsubs = 2; k.faults_max = 2; k.inbound = 3; }
    else if (family == "c13-mix") { k.pubs_max = 4; k.subs = 2; k.faults_max = 3; k.lose_session_pct = 60; k.inbound = 2; }
    else if (family == "c14-mix") { k.pubs_max = 2; k.subs = 3; k.unsubs = 2; k.faults_max = 2; }
    return k;
}

void run_mix(Judge& j, const Knobs& k, const std::string& family, uint64_t n) {
    const FamilyCtx& ctx = j.ctx;
    for (uint64_t i = 0; i < n; ++i) {
        if (int(i % ctx.nshards) != ctx.shard) continue;
        vu::Rng rng(ctx.seed * 1000003 + vu::fnv(family) % 100000 + i * 7919);
        Scenario sc = gen_mix(rng, k, family);
        sc.seed = ctx.seed; sc.index = i;
        vu::set_case(sc.family + " seed=" + std::to_string(sc.seed) + " index=" + std::to_string(i));
        auto ex = execute(sc);
        j.judge(sc, *ex);
        if (j.res.samples.size() < 2) j.res.sample(vu::jesc(sc.describe().substr(0, 1500)));
    }
}

void run_sweep(Judge& j, int nworkloads, bool pairs, const std::vector<int>& next_attempts, bool only_inbound = false) {
    const FamilyCtx& ctx = j.ctx;
    uint64_t idx = 0;
    for (int wl = 0; wl < nworkloads; ++wl) {
        if (only_inbound && wl != 2 && wl != 4 && wl != 5) continue;
        CrashSweep sw; sw.base = reference_workload(wl, ctx.seed);
        sw.measure();
        j.res.count("crash_points_total", sw.points() * next_attempts.size());
        for (size_t p = 0; p < sw.points(); ++p)
            for (int na : next_attempts) {
                if (int(idx++ % ctx.nshards) != ctx.shard) continue;
                Scenario sc = sw.at(p, na);
                sc.family = "sweep-" + sw.base.family;
                vu::set_case(sc.family + " point=" + std::to_string(p) + " next=" + std::to_string(na));
                auto ex = execute(sc);
                j.judge(sc, *ex);
                j.res.count("crash_points_run");
                bool fired = false;
                for (auto& e : ex->world->h.ev) if (e.kind == Ev::fault) fired = true;
                if (fired) j.res.count("crash_points_fired");
            }
        if (pairs) {
            // second fault on the following connection: sampled grid over its byte range
            for (size_t p = 0; p < sw.points(); p += 3)
                for (size_t q = 0; q < sw.c2b + sw.b2c; q += 5) {
                    if (int(idx++ % ctx.nshards) != ctx.shard) continue;
                    Scenario sc = sw.at(p, 0);
                    Fault f; f.conn_ordinal = 1;
                    if (q < sw.c2b) { f.kind = Fault::reset_c2b; f.at = q; } else { f.kind = Fault::reset_b2c; f.at = q - sw.c2b; }
                    f.ec = int(q % 6);
                    sc.faults.push_back(f);
                    sc.family = "sweep2-" + sw.base.family; sc.index = p * 100000 + q;
                    vu::set_case(sc.family + " p=" + std::to_string(p) + " q=" + std::to_string(q));
                    auto ex = execute(sc);
                    j.judge(sc, *ex);
                    j.res.count("crash_point_pairs_run");
                }
        }
    }
}

// ------------------------------------------------------------------------------------------------ idle-point sweep (terminal actions)
void run_idle_sweep(Judge& j, uint64_t nbase, int max_idle, const std::vector<int>& term_kinds) {
    const FamilyCtx& ctx = j.ctx;
    uint64_t idx = 0;
    Knobs k; k.pubs_max = 6; k.suffix = 12 * SEC; k.span = 1 * SEC; k.faults_max = 1; k.bad_attempts_max = 1; k.big_payload_pct = 0;
    for (uint64_t bi = 0; bi < nbase; ++bi) {
        vu::Rng rng(ctx.seed * 31337 + bi * 104729);
        Scenario base = gen_mix(rng, k, "idle-base");
        base.seed = ctx.seed; base.index = bi;
        if (rng.chance(1, 4)) base.net.shutdown_hangs = true;
        if (rng.chance(1, 5)) { base.attempts.clear(); AttemptPlan a; a.tcp = AttemptPlan::tcp_hang; base.attempts.push_back(a); base.default_attempt = a; }
        // number of idle points of the undisturbed run
        uint64_t nidle;
        { auto ex = execute(base); nidle = ex->run.out.idle_points; }
        int limit = (int)std::min<uint64_t>(nidle, max_idle);
        for (int ip = 1; ip <= limit; ++ip)
            for (int tk : term_kinds) {
                if (int(idx++ % ctx.nshards) != ctx.shard) continue;
                Scenario sc = base; sc.family = "idle-sweep"; sc.index = bi * 1000000 + ip * 10 + tk;
                Action a; a.idle_index = ip;
                switch (tk) {
                    case 0: a.kind = Action::cancel; break;
                    case 1: a.kind = Action::disconnect; a.rc = 0; break;
                    case 2: a.kind = Action::destroy; break;
                    case 3: {   // cancel, run again, cancel again
                        a.kind = Action::cancel;
                        Action r2; r2.kind = Action::run; r2.idle_index = ip + 2; sc.script.push_back(r2);
                        Action p2; p2.kind = Action::publish; p2.qos = 1; p2.topic = "again"; p2.payload = "x"; p2.idle_index = ip + 3; sc.script.push_back(p2);
                        Action c2; c2.kind = Action::cancel; c2.idle_index = ip + 9; sc.script.push_back(c2);
                        break;
                    }
                    case 4: {   // per-operation signal on the first request of the script
                        a.kind = Action::signal; a.target = 1; a.sig = rng.pick(std::vector<SigType>{SigType::total, SigType::partial, SigType::terminal});
                        if (sc.script.size() > 1) sc.script[1].with_slot = true;
                        break;
                    }
                    case 5: a.kind = Action::disconnect; a.rc = 4; { ref::Prop u; u.id = 0x1F; u.s1 = "bye"; a.props.push_back(u); } break;
                }
                sc.script.push_back(a);
                vu::set_case(sc.family + " base=" + std::to_string(bi) + " idle=" + std::to_string(ip) + " terminal=" + std::to_string(tk));
                auto ex = execute(sc);
                j.judge(sc, *ex);
                j.res.count("terminal_placements");
                j.res.count("terminal_kind_" + std::to_string(tk));
            }
    }
}

}  // namespace

int run_families(const FamilyCtx& ctx, vu::Result& res) {
    Judge j{ctx, res};
    const std::string& P = ctx.prop;
    bool T = ctx.thorough;
    if (ctx.args.has("replay-mix")) {
        // re-run one generated scenario and print its history: --replay-mix <family> --index N
        std::string fam = ctx.args.str("replay-mix");
        uint64_t i = (uint64_t)ctx.args.num("index", 0);
        vu::Rng rng(ctx.seed * 1000003 + vu::fnv(fam) % 100000 + i * 7919);
        Knobs k = knobs_for(fam);
        Scenario sc = gen_mix(rng, k, fam); sc.seed = ctx.seed; sc.index = i;
        auto ex = execute(sc);
        printf("%s\n%s\n", sc.describe().c_str(), ex->world->h.dump(6000).c_str());
        for (auto& o : ex->world->h.ops)
            printf("op#%d %s init=%.6f done=%.6f n=%d ec=%s topic=%s r_topic=%s\n", o.id, op_kind_name(o.kind), o.t_init / 1e9, o.t_done / 1e9, o.completions, ec_name(o.ec).c_str(), o.topic.c_str(), o.r_topic.c_str());
        j.judge(sc, *ex);
        for (auto& v : res.violations) printf("VIOLATION %s %s\n", v.key.c_str(), v.what.c_str());
        return 0;
    }
    if (P == "C01") {
        Knobs k = knobs_for("c01-mix");
        run_mix(j, k, "c01-mix", T ? 200000 : 4000);
    } else if (P == "C02") {
        run_sweep(j, T ? 6 : 4, T, T ? std::vector<int>{0, 1, 2, 3} : std::vector<int>{0, 2});
        Knobs k = knobs_for("c02-mix");
        run_mix(j, k, "c02-mix", T ? 60000 : 1500);
    } else if (P == "C03") {
        run_sweep(j, T ? 6 : 3, false, {0});
        Knobs k = knobs_for("c03-mix");
        run_mix(j, k, "c03-mix", T ? 150000 : 2500);
    } else if (P == "C04") {
        run_sweep(j, T ? 6 : 6, false, {0}, /*only_inbound=*/true);
        Knobs k = knobs_for("c04-mix");
        run_mix(j, k, "c04-mix", T ? 150000 : 3000);
    } else if (P == "C05") {
        run_idle_sweep(j, T ? 40 : 4, T ? 200 : 90, {0, 1, 2, 3, 4, 5});
        Knobs k = knobs_for("c05-mix");
        run_mix(j, k, "c05-mix", T ? 50000 : 1000);
    } else if (P == "C06") {
        Knobs k = knobs_for("c06-mix");
        run_mix(j, k, "c06-mix", T ? 150000 : 3000);
    } else if (P == "C07") {
        Knobs k = knobs_for("c07-mix");
        run_mix(j, k, "c07-mix", T ? 150000 : 3000);
    } else if (P == "C08") {
        Knobs k = knobs_for("c08-mix");
        run_mix(j, k, "c08-mix", T ? 100000 : 2000);
    } else if (P == "C13") {
        Knobs k = knobs_for("c13-mix");
        run_mix(j, k, "c13-mix", T ? 150000 : 3000);
    } else if (P == "C14") {
        Knobs k = knobs_for("c14-mix");
        run_mix(j, k, "c14-mix", T ? 150000 : 3000);
    } else {
        res.harness_error = "no simulator family for " + P;
        return 2;
    }
    if (!res.harness_error.empty()) return 2;
    return res.violations.empty() ? 0 : 1;
}

}  // namespace sim
