#include "sim/families.hpp"

#include <sstream>

#include "sim/monitors.hpp"

namespace sim {

namespace {

Scenario demo(uint64_t seed) {
    Scenario sc; sc.family = "demo"; sc.seed = seed;
    sc.end = 10 * SEC;
    Action r; r.kind = Action::run; r.at = 0; sc.script.push_back(r);
    for (int i = 0; i < 3; ++i) {
        Action p; p.kind = Action::publish; p.at = (100 + i) * MS; p.qos = i; p.topic = "t"; p.payload = "hello" + std::to_string(i);
        sc.script.push_back(p);
    }
    Action s; s.kind = Action::subscribe; s.at = 200 * MS; s.subs = {{"a/+", 1}}; sc.script.push_back(s);
    Action bp; bp.kind = Action::broker_publish; bp.at = 500 * MS; bp.qos = 2; bp.topic = "x"; bp.payload = "inbound"; sc.script.push_back(bp);
    return sc;
}

}  // namespace

int run_families(const FamilyCtx& ctx, vu::Result& res) {
    if (ctx.args.has("demo")) {
        Scenario sc = demo(ctx.seed);
        auto ex = execute(sc);
        printf("%s\n%s\n", sc.describe().c_str(), ex->world->h.dump(2000).c_str());
        printf("outcome: exception=%d hang=%d harness=%d(%s) final_stopped=%d idle_points=%llu handlers=%llu\n", ex->run.out.exception, ex->run.out.hang,
               ex->run.out.harness_failure, ex->run.out.harness_what.c_str(), ex->run.out.final_stopped, (unsigned long long)ex->run.out.idle_points, (unsigned long long)ex->run.out.handlers);
        for (auto& o : ex->world->h.ops)
            printf("op %d %s completions=%d ec=%s dropped=%d t=%.6f\n", o.id, op_kind_name(o.kind), o.completions, ec_name(o.ec).c_str(), o.dropped, o.t_done / 1e9);
        res.evaluations = 1;
        return 0;
    }
    res.harness_error = "no family for " + ctx.prop;
    return 2;
}

}  // namespace sim
