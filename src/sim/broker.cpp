#include "sim/broker.hpp"

#include <algorithm>

namespace sim {

namespace {
ref::Prop pnum(uint8_t id, uint64_t v) { ref::Prop p; p.id = id; p.num = v; return p; }
ref::Prop pstr(uint8_t id, std::string s) { ref::Prop p; p.id = id; p.s1 = std::move(s); return p; }
}  // namespace

bool Broker::silent_now() const {
    if (cfg.silent_after_connack) return true;
    if (cfg.silent_from >= 0 && w_.now() >= cfg.silent_from && (cfg.silent_until < 0 || w_.now() < cfg.silent_until)) return true;
    return false;
}

bool Broker::quiet() const { return pending_acks == 0; }

void Broker::on_tcp_accept(const ConnPtr& c) { c->broker_state = std::make_shared<BConn>(); }

void Broker::on_conn_lost(const ConnPtr& c, bool) {
    if (auto* b = state(c)) b->closed = true;
    if (current_ == c) current_.reset();
}

int Broker::send_packet(const ConnPtr& c, const ref::Packet& p, BKind kind, int for_cpkt, int out_msg) {
    if (c->st != Conn::up || c->broker_closed) return -1;
    BPacket b; b.id = (int)w_.h.bpkts.size(); b.conn = c->id; b.seq = w_.next_seq(); b.t = w_.now();
    b.pkt = p; b.raw = ref::encode(p); b.end_offset = c->b2c_sent + (holding_ ? held_.size() : 0) + b.raw.size(); b.for_cpkt = for_cpkt; b.out_msg = out_msg; b.kind = kind;
    w_.h.bpkts.push_back(b);
    c->undelivered_bpkts.push_back(b.id);
    w_.log(Ev::brk_tx, c->id, b.id, for_cpkt, p.str());
    if (holding_) held_ += b.raw; else w_.broker_send(c, b.raw, b.id, 1);
    return b.id;
}

void Broker::send_raw(const ConnPtr& c, const std::string& bytes, BKind kind, const char* note) {
    if (c->st != Conn::up || c->broker_closed) return;
    // record what a client would see: cut into packets where the reference codec can frame them
    size_t off = 0;
    while (off < bytes.size()) {
        auto d = ref::decode(std::string_view(bytes).substr(off), ref::Dir::from_server);
        size_t len = (d.status == ref::Status::ok || (d.framed && d.status == ref::Status::malformed && d.consumed <= bytes.size() - off)) ? d.consumed : bytes.size() - off;
        if (len == 0) len = bytes.size() - off;
        BPacket b; b.id = (int)w_.h.bpkts.size(); b.conn = c->id; b.seq = w_.next_seq(); b.t = w_.now();
        b.pkt = d.pkt; b.raw = bytes.substr(off, len); b.wellformed = d.status == ref::Status::ok; b.kind = kind;
        b.end_offset = c->b2c_sent + off + len;
        w_.h.bpkts.push_back(b);
        c->undelivered_bpkts.push_back(b.id);
        w_.log(Ev::brk_tx, c->id, b.id, -1, std::string(note) + " " + (b.wellformed ? d.pkt.str() : "MALFORMED(" + d.error + ") " + vu::hex(b.raw, 24)));
        off += len;
    }
    w_.broker_send(c, bytes, -1, 0);
}

void Broker::later(const ConnPtr& c, std::function<void()> fn) {
    vt d = cfg.ack_delay_max > 0 ? (vt)w_.rng.range(cfg.ack_delay_min, cfg.ack_delay_max) : 0;
    ++pending_acks;
    std::weak_ptr<Conn> wc = c;
    w_.after(d, [this, wc, fn = std::move(fn)] {
        --pending_acks;
        auto c = wc.lock();
        if (!c || c->st != Conn::up || c->broker_closed) return;
        auto* b = state(c);
        if (!b || b->closed) return;
        if (silent_now()) return;
        if (cfg.drop_ack_pct && w_.now() < cfg.drop_ack_until && (int)w_.rng.below(100) < cfg.drop_ack_pct) {
            w_.log(Ev::note, c->id, -1, 0, "broker: acknowledgement withheld (the connection stays up)");
            ++acks_withheld;
            return;
        }
        fn();
    });
}

ref::Props Broker::ack_props() {
    ref::Props p;
    if (cfg.ack_props_pct && (int)w_.rng.below(100) < cfg.ack_props_pct) {
        if (w_.rng.chance(1, 2)) p.push_back(pstr(0x1F, "reason-" + std::to_string(w_.rng.below(1000))));
        int n = (int)w_.rng.below(3);
        for (int i = 0; i < n; ++i) { ref::Prop u; u.id = 0x26; u.s1 = "k" + std::to_string(i); u.s2 = "v" + std::to_string(w_.rng.below(100)); p.push_back(u); }
    }
    return p;
}

uint8_t Broker::ack_rc(uint8_t type) {
    auto& rng = w_.rng;
    if (cfg.ack_bad_rc_pct && (int)rng.below(100) < cfg.ack_bad_rc_pct) {
        for (int tries = 0; tries < 50; ++tries) { uint8_t c = (uint8_t)rng.below(256); if (!ref::rc_listed(type, c)) return c; }
    }
    auto& l = ref::rc_list(type, ref::Dir::from_server);
    if (cfg.fail_rc_pct && (int)rng.below(100) < cfg.fail_rc_pct) {
        std::vector<uint8_t> f;
        for (auto c : l) if (c >= 0x80) f.push_back(c);
        if (!f.empty()) return f[rng.below(f.size())];
    }
    if (cfg.alt_success_rc_pct && (int)rng.below(100) < cfg.alt_success_rc_pct && (type == ref::PUBACK || type == ref::PUBREC)) return 0x10;
    return 0;
}

void Broker::on_bytes(const ConnPtr& c, const std::string& bytes, int) {
    auto* b = state(c);
    if (!b || b->closed) return;
    c->c2b_pending += bytes;
    size_t pos = 0;   // parsed prefix of c2b_pending (erased once at the end: batches can hold tens of thousands of packets)
    struct Trim { std::string& s; size_t& pos; ~Trim() { s.erase(0, pos); } } trim{c->c2b_pending, pos};
    while (pos < c->c2b_pending.size() && !b->closed) {
        auto d = ref::decode(std::string_view(c->c2b_pending).substr(pos), ref::Dir::from_client);
        if (d.status == ref::Status::incomplete) break;
        int cpkt = -1;
        { auto it = c->cpkt_at.find(b->rx_offset); if (it != c->cpkt_at.end()) cpkt = it->second; }
        if (d.status == ref::Status::malformed) {
            w_.log(Ev::brk_rx, c->id, cpkt, 0, "MALFORMED from client: " + d.error + " " + vu::hex(c->c2b_pending.substr(pos, 32), 32));
            ref::Packet dis; dis.type = ref::DISCONNECT; dis.rc = 0x81;
            send_packet(c, dis, BKind::normal);
            b->closed = true;
            w_.broker_close(c, false);
            break;
        }
        if (cpkt >= 0) { auto& k = w_.h.cpkts[cpkt]; k.reached_broker = true; k.rx_seq = w_.next_seq(); k.rx_t = w_.now(); }
        w_.log(Ev::brk_rx, c->id, cpkt, (int64_t)b->rx_offset, d.pkt.str());
        b->rx_offset += d.consumed;
        pos += d.consumed;
        if (c->stalled) continue;
        handle(c, *b, d, cpkt);
    }
}

void Broker::do_connect(const ConnPtr& c, BConn& b, const ref::Packet& p, int cpkt) {
    auto& rec = w_.crec(c);
    b.got_connect = true; b.client_id = p.client_id; b.connect_cpkt = cpkt;
    rec.client_id = p.client_id;
    for (auto& x : p.props) if (x.id == 0x21) b.client_receive_max = (uint16_t)x.num;
    for (auto& x : p.props) if (x.id == 0x27) b.client_max_packet = (uint32_t)x.num;
    switch (c->plan.hs) {
        case AttemptPlan::hs_silent: c->stalled = true; return;
        case AttemptPlan::hs_close: b.closed = true; w_.broker_close(c, false); return;
        case AttemptPlan::hs_garbage: {
            std::string g(w_.rng.range(2, 30), 0);
            for (auto& ch : g) ch = char(w_.rng.below(256));
            send_raw(c, g, BKind::hostile, "garbage instead of CONNACK");
            c->stalled = true;
            return;
        }
        case AttemptPlan::hs_custom: send_raw(c, c->plan.custom_bytes, BKind::hostile, "custom handshake bytes"); c->stalled = true; return;
        case AttemptPlan::hs_refuse_rc: {
            ref::Packet ca; ca.type = ref::CONNACK; ca.rc = c->plan.refuse_rc; ca.session_present = false;
            int id = send_packet(c, ca, BKind::normal, cpkt);
            rec.connack_sent = true; rec.connack_rc = ca.rc; rec.connack_bpkt = id;
            b.closed = true; w_.broker_close(c, false);
            return;
        }
        default: break;
    }
    // enhanced authentication dialogue
    bool wants_auth = false;
    for (auto& x : p.props) if (x.id == 0x15) wants_auth = true;
    if (wants_auth && auth_rounds > 0 && !b.auth_in_progress) {
        b.auth_in_progress = true;
        ref::Packet a; a.type = ref::AUTH; a.rc = 0x18;
        a.props.push_back(pstr(0x15, auth_method)); a.props.push_back(pstr(0x16, "challenge-0"));
        send_packet(c, a, BKind::normal, cpkt);
        return;
    }
    // session
    bool present = false;
    auto it = sessions.find(b.client_id);
    if (p.clean_start) { if (it != sessions.end()) { for (int id : it->second.out) out[id].st = OutMsg::abandoned; sessions.erase(it); it = sessions.end(); } }
    if (it != sessions.end()) {
        present = cfg.keep_sessions && !(cfg.lose_session_pct && (int)w_.rng.below(100) < cfg.lose_session_pct);
        if (c->plan.session_present == 0) present = false;
        if (c->plan.session_present == 1) present = true;
        if (!present) { for (int id : it->second.out) out[id].st = OutMsg::abandoned; int gen = it->second.generation + 1; sessions.erase(it); sessions[b.client_id].generation = gen; }
    } else {
        sessions[b.client_id];
        if (c->plan.session_present == 1) present = true;   // (server claims a session the client may not have)
    }
    Session& s = sessions[b.client_id];
    s.client_id = b.client_id;
    // messages enqueued before the client id was known
    for (auto& m : out) if (m.session.empty() && m.st == OutMsg::queued) { m.session = b.client_id; s.out.push_back(m.id); }
    ref::Packet ca; ca.type = ref::CONNACK; ca.rc = 0; ca.session_present = present;
    Caps cp = cfg.caps;
    if (accepted_connections < (int)cfg.receive_maximum_script.size()) {
        int rm = cfg.receive_maximum_script[accepted_connections];
        if (rm > 0) cp.receive_maximum = (uint16_t)rm; else cp.receive_maximum.reset();
    }
    ++accepted_connections;
    if (cfg.session_expiry) ca.props.push_back(pnum(0x11, *cfg.session_expiry));
    if (cp.receive_maximum) ca.props.push_back(pnum(0x21, *cp.receive_maximum));
    if (cp.maximum_qos) ca.props.push_back(pnum(0x24, *cp.maximum_qos));
    if (cp.retain_available) ca.props.push_back(pnum(0x25, *cp.retain_available));
    if (cp.maximum_packet_size) ca.props.push_back(pnum(0x27, *cp.maximum_packet_size));
    if (cp.topic_alias_maximum) ca.props.push_back(pnum(0x22, *cp.topic_alias_maximum));
    if (cp.wildcard_available) ca.props.push_back(pnum(0x28, *cp.wildcard_available));
    if (cp.sub_id_available) ca.props.push_back(pnum(0x29, *cp.sub_id_available));
    if (cp.shared_available) ca.props.push_back(pnum(0x2A, *cp.shared_available));
    if (cp.server_keep_alive) ca.props.push_back(pnum(0x13, *cp.server_keep_alive));
    if (wants_auth) { ca.props.push_back(pstr(0x15, auth_method)); ca.props.push_back(pstr(0x16, "final")); }
    int id = send_packet(c, ca, BKind::normal, cpkt);
    rec.connack_sent = true; rec.connack_rc = 0; rec.session_present = present; rec.connack_bpkt = id; rec.caps = cp;
    b.accepted = true;
    current_ = c;
    b.inflight_to_client = 0;
    if (silent_now()) return;
    // resume: retransmit what is in flight, in the original order
    if (present)
        for (int mid : s.out) {
            OutMsg& m = out[mid];
            if (m.st == OutMsg::sent) {
                ref::Packet pub; pub.type = ref::PUBLISH; pub.topic = m.topic; pub.payload = m.payload; pub.props = m.props; pub.qos = m.qos; pub.retain = m.retain; pub.pid = m.pid; pub.dup = true;
                int bid = send_packet(c, pub, BKind::retransmit, -1, m.id);
                m.pub_bpkts.push_back(bid); ++b.inflight_to_client;
            } else if (m.st == OutMsg::rec_seen) {
                ref::Packet rel; rel.type = ref::PUBREL; rel.pid = m.pid;
                int bid = send_packet(c, rel, BKind::retransmit, -1, m.id);
                m.rel_bpkts.push_back(bid); ++b.inflight_to_client;
            }
        }
    pump_out(c);
}

void Broker::pump_out(const ConnPtr& c) {
    auto* b = state(c);
    if (!b || !b->accepted || b->closed || c->st != Conn::up || silent_now()) return;
    Session* s = sess(*b);
    if (!s) return;
    for (auto it = s->out.begin(); it != s->out.end();) {
        OutMsg& m = out[*it];
        if (m.st != OutMsg::queued) { ++it; continue; }
        if (m.qos > 0 && b->inflight_to_client >= b->client_receive_max) break;
        ref::Packet pub; pub.type = ref::PUBLISH; pub.topic = m.topic; pub.payload = m.payload; pub.props = m.props; pub.qos = m.qos; pub.retain = m.retain;
        if (b->client_max_packet) {
            // a conformant Server never sends a packet above the Client's Maximum Packet Size [MQTT-3.1.2-24]: size the
            // payload (exactly limit - fit_delta when the scenario asks for a boundary message, else merely within the limit)
            pub.pid = m.qos ? 1 : 0;
            uint32_t limit = b->client_max_packet, want = m.fit_delta >= 0 && (uint32_t)m.fit_delta < limit ? limit - m.fit_delta : 0;
            auto size_with = [&](size_t L) { pub.payload.resize(L, 'z'); return ref::encode(pub).size(); };
            if (size_with(0) > limit) { pub.props.clear(); m.props.clear(); }
            size_t L = m.payload.size(); uint32_t target = want ? want : limit;
            if (want || size_with(L) > limit) { L = target; while (L > 0 && size_with(L) > target) --L; }
            std::string pl = m.payload; pl.resize(L, 'z'); pub.payload = pl;
            m.payload = pub.payload; m.fit_delta = -1;
            w_.log(Ev::note, c->id, -1, 0, "broker: PUBLISH sized to " + std::to_string(ref::encode(pub).size()) + " bytes, client's Maximum Packet Size " + std::to_string(limit));
        }
        if (m.qos > 0) {
            // next packet id not used by an unfinished outbound exchange
            for (;;) {
                uint16_t cand = s->next_pid; s->next_pid = uint16_t(s->next_pid == 65535 ? 1 : s->next_pid + 1);
                bool used = false;
                for (int oid : s->out) if (out[oid].pid == cand && out[oid].st != OutMsg::queued && out[oid].st != OutMsg::done) used = true;
                if (!used) { m.pid = cand; break; }
            }
            pub.pid = m.pid;
        }
        int bid = send_packet(c, pub, BKind::normal, -1, m.id);
        m.pub_bpkts.push_back(bid);
        if (m.first_conn < 0) m.first_conn = c->id;
        if (m.qos == 0) { m.st = OutMsg::done; it = s->out.erase(it); }
        else { m.st = OutMsg::sent; ++b->inflight_to_client; ++it; }
    }
}

int Broker::publish_to_client(const std::string& tag, std::string topic, std::string payload, uint8_t qos, bool retain, ref::Props props, int fit_delta) {
    OutMsg m; m.id = (int)out.size(); m.fit_delta = fit_delta; m.tag = tag; m.topic = std::move(topic); m.payload = std::move(payload); m.qos = qos; m.retain = retain; m.props = std::move(props);
    m.seq_enqueued = w_.next_seq(); m.t_enqueued = w_.now();
    // the scenario has one client: attach to its session if known
    if (!sessions.empty()) { auto& s = sessions.begin()->second; m.session = s.client_id; out.push_back(m); s.out.push_back(m.id); }
    else out.push_back(m);
    if (current_) pump_out(current_);
    return m.id;
}

void Broker::handle(const ConnPtr& c, BConn& b, const ref::Decoded& d, int cpkt) {
    const ref::Packet& p = d.pkt;
    if (!b.got_connect || (b.auth_in_progress && !b.accepted)) {
        if (p.type == ref::CONNECT && !b.got_connect) { do_connect(c, b, p, cpkt); return; }
        if (p.type == ref::AUTH && b.auth_in_progress) {
            static int round = 0;
            (void)round;
            // count AUTH packets received on this connection
            int got = 0;
            for (auto& k : w_.h.cpkts) if (k.conn == c->id && k.reached_broker && k.dec.pkt.type == ref::AUTH) ++got;
            if (got < auth_rounds) {
                ref::Packet a; a.type = ref::AUTH; a.rc = 0x18;
                a.props.push_back(pstr(0x15, auth_method)); a.props.push_back(pstr(0x16, "challenge-" + std::to_string(got)));
                send_packet(c, a, BKind::normal, cpkt);
            } else {
                ref::Packet conn = w_.h.cpkts[b.connect_cpkt].dec.pkt;
                int saved = auth_rounds; auth_rounds = 0;
                b.auth_in_progress = true;
                do_connect(c, b, conn, b.connect_cpkt);
                auth_rounds = saved;
            }
            return;
        }
        w_.log(Ev::note, c->id, cpkt, 0, "protocol: packet before CONNECT/CONNACK: " + p.str());
        return;
    }
    if (!b.accepted) { w_.log(Ev::note, c->id, cpkt, 0, "protocol: packet on a connection whose handshake did not succeed: " + p.str()); return; }
    if (silent_now()) return;
    Session* s = sess(b);
    switch (p.type) {
        case ref::CONNECT: w_.log(Ev::note, c->id, cpkt, 0, "protocol: second CONNECT"); break;
        case ref::PUBLISH:
            if (!cfg.only_ack_topics.empty() && p.qos > 0) {
                bool hit = false; size_t st = 0;
                while (st <= cfg.only_ack_topics.size()) {
                    size_t e = cfg.only_ack_topics.find('|', st);
                    std::string part = cfg.only_ack_topics.substr(st, e == std::string::npos ? std::string::npos : e - st);
                    if (!part.empty() && p.topic.find(part) != std::string::npos) hit = true;
                    if (e == std::string::npos) break;
                    st = e + 1;
                }
                if (!hit) break;
            }
            if (p.qos == 1) {
                later(c, [this, c, p, cpkt] {
                    ref::Packet a; a.type = ref::PUBACK; a.pid = p.pid; a.rc = ack_rc(ref::PUBACK); a.props = ack_props();
                    if (a.props.empty() && (int)w_.rng.below(100) < cfg.short_form_pct) a.short_form = a.rc == 0 ? uint8_t(1 + w_.rng.below(2)) : 1;
                    send_packet(c, a, ref::rc_listed(ref::PUBACK, a.rc) ? BKind::normal : BKind::hostile, cpkt);
                });
            } else if (p.qos == 2) {
                bool dupl = s && s->in_qos2.count(p.pid);
                uint8_t rc = dupl ? 0 : ack_rc(ref::PUBREC);
                if (s && rc < 0x80) s->in_qos2.insert(p.pid);
                ref::Props props = ack_props();
                later(c, [this, c, p, cpkt, rc, props] {
                    ref::Packet a; a.type = ref::PUBREC; a.pid = p.pid; a.rc = rc; a.props = props;
                    if (a.props.empty() && (int)w_.rng.below(100) < cfg.short_form_pct) a.short_form = a.rc == 0 ? uint8_t(1 + w_.rng.below(2)) : 1;
                    send_packet(c, a, ref::rc_listed(ref::PUBREC, a.rc) ? BKind::normal : BKind::hostile, cpkt);
                });
            }
            break;
        case ref::PUBREL: {
            bool known = s && s->in_qos2.erase(p.pid);
            ref::Props props = ack_props();
            later(c, [this, c, p, cpkt, known, props] {
                ref::Packet a; a.type = ref::PUBCOMP; a.pid = p.pid; a.rc = known ? 0 : 0x92; a.props = props;
                if (cfg.ack_bad_rc_pct && (int)w_.rng.below(100) < cfg.ack_bad_rc_pct) a.rc = ack_rc(ref::PUBCOMP);
                if (a.props.empty() && (int)w_.rng.below(100) < cfg.short_form_pct) a.short_form = a.rc == 0 ? uint8_t(1 + w_.rng.below(2)) : 1;
                send_packet(c, a, ref::rc_listed(ref::PUBCOMP, a.rc) ? BKind::normal : BKind::hostile, cpkt);
            });
            break;
        }
        case ref::PUBACK: case ref::PUBREC: case ref::PUBCOMP: {
            OutMsg* m = nullptr;
            if (s) for (int id : s->out) if (out[id].pid == p.pid && out[id].st != OutMsg::queued && out[id].st != OutMsg::done) { m = &out[id]; break; }
            if (!m) {
                w_.log(Ev::note, c->id, cpkt, 0, std::string("client sent ") + ref::type_name(p.type) + " for a packet id the broker has no open exchange for: " + std::to_string(p.pid));
                if (p.type == ref::PUBREC) { ref::Packet rel; rel.type = ref::PUBREL; rel.pid = p.pid; rel.rc = 0x92; send_packet(c, rel, BKind::normal, cpkt); }
                break;
            }
            if (p.type == ref::PUBACK && m->qos == 1) { m->st = OutMsg::done; m->ack_cpkt = cpkt; }
            else if (p.type == ref::PUBREC && m->qos == 2) {
                m->rec_cpkt = cpkt;
                if (p.rc >= 0x80) m->st = OutMsg::done;
                else { m->st = OutMsg::rec_seen; ref::Packet rel; rel.type = ref::PUBREL; rel.pid = p.pid; int bid = send_packet(c, rel, BKind::normal, cpkt, m->id); m->rel_bpkts.push_back(bid); }
            } else if (p.type == ref::PUBCOMP && m->qos == 2 && m->st == OutMsg::rec_seen) { m->st = OutMsg::done; m->comp_cpkt = cpkt; }
            else { w_.log(Ev::note, c->id, cpkt, 0, std::string("client sent ") + ref::type_name(p.type) + " not matching the state of the exchange for id " + std::to_string(p.pid)); break; }
            if (m->st == OutMsg::done) {
                if (b.inflight_to_client > 0) --b.inflight_to_client;
                if (s) s->out.erase(std::remove(s->out.begin(), s->out.end(), m->id), s->out.end());
                pump_out(c);
            }
            break;
        }
        case ref::SUBSCRIBE:
            later(c, [this, c, p, cpkt] {
                ref::Packet a; a.type = ref::SUBACK; a.pid = p.pid; a.props = ack_props();
                static const uint8_t fail[] = {0x80, 0x83, 0x87, 0x8F, 0x91, 0x97, 0x9E, 0xA1, 0xA2};
                for (auto& sb : p.subs) {
                    uint8_t rc = std::min<uint8_t>(sb.second & 3, (uint8_t)cfg.suback_granted_max);
                    if (cfg.suback_all_fail || (cfg.suback_fail_pct && (int)w_.rng.below(100) < cfg.suback_fail_pct)) rc = fail[w_.rng.below(sizeof fail)];
                    if (cfg.ack_bad_rc_pct && (int)w_.rng.below(100) < cfg.ack_bad_rc_pct) rc = ack_rc(ref::SUBACK);
                    a.rcs.push_back(rc);
                }
                BKind kind = BKind::normal;
                if (cfg.suback_wrong_count_pct && (int)w_.rng.below(100) < cfg.suback_wrong_count_pct) {
                    kind = BKind::hostile;
                    if (a.rcs.size() > 1 && w_.rng.chance(1, 2)) a.rcs.pop_back(); else a.rcs.push_back(0);
                }
                for (auto& x : a.rcs) if (!ref::rc_listed(ref::SUBACK, x)) kind = BKind::hostile;
                send_packet(c, a, kind, cpkt);
            });
            if (s) for (auto& sb : p.subs) s->subs.push_back(sb.first);
            break;
        case ref::UNSUBSCRIBE:
            later(c, [this, c, p, cpkt] {
                ref::Packet a; a.type = ref::UNSUBACK; a.pid = p.pid; a.props = ack_props();
                static const uint8_t fail[] = {0x80, 0x83, 0x87, 0x8F, 0x91};
                for (size_t i = 0; i < p.unsubs.size(); ++i) {
                    uint8_t rc = w_.rng.chance(1, 3) ? 0x11 : 0x00;
                    if (cfg.suback_fail_pct && (int)w_.rng.below(100) < cfg.suback_fail_pct) rc = fail[w_.rng.below(sizeof fail)];
                    if (cfg.ack_bad_rc_pct && (int)w_.rng.below(100) < cfg.ack_bad_rc_pct) rc = ack_rc(ref::UNSUBACK);
                    a.rcs.push_back(rc);
                }
                BKind kind = BKind::normal;
                if (cfg.suback_wrong_count_pct && (int)w_.rng.below(100) < cfg.suback_wrong_count_pct) {
                    kind = BKind::hostile;
                    if (a.rcs.size() > 1 && w_.rng.chance(1, 2)) a.rcs.pop_back(); else a.rcs.push_back(0);
                }
                for (auto& x : a.rcs) if (!ref::rc_listed(ref::UNSUBACK, x)) kind = BKind::hostile;
                send_packet(c, a, kind, cpkt);
            });
            break;
        case ref::PINGREQ:
            if (cfg.answer_ping) { ref::Packet a; a.type = ref::PINGRESP; send_packet(c, a, BKind::normal, cpkt); }
            break;
        case ref::DISCONNECT:
            b.closed = true;
            if (current_ == c) current_.reset();
            if (!cfg.linger_after_disconnect) w_.broker_close(c, false);
            break;
        case ref::AUTH: {
            // re-authentication [MQTT 4.12.1]: AUTH 0x19 starts it, the Server answers AUTH 0x18 (challenge) `auth_rounds`
            // times and then AUTH 0x00; a wrong method is a protocol error (DISCONNECT 0x8C, close)
            std::string method; for (auto& x : p.props) if (x.id == 0x15) method = x.s1;
            if (auth_method.empty() || method != auth_method || (p.rc != 0x19 && p.rc != 0x18)) {
                w_.log(Ev::note, c->id, cpkt, 0, "protocol: unexpected AUTH after CONNACK: " + p.str());
                ref::Packet d; d.type = ref::DISCONNECT; d.rc = 0x8C; send_packet(c, d, BKind::normal, cpkt);
                w_.broker_close(c, false);
                break;
            }
            if (p.rc == 0x19) b.reauth_round = 0;
            int round = b.reauth_round++;
            later(c, [this, c, cpkt, round] {
                ref::Packet a; a.type = ref::AUTH; a.rc = round < auth_rounds ? 0x18 : 0x00;
                a.props.push_back(pstr(0x15, auth_method));
                if (a.rc == 0x18) a.props.push_back(pstr(0x16, "re-challenge-" + std::to_string(round)));
                send_packet(c, a, BKind::normal, cpkt);
            });
            break;
        }
        default:
            w_.log(Ev::note, c->id, cpkt, 0, "protocol: client sent a server-only packet " + p.str());
            break;
    }
}

}  // namespace sim
