// Type-erased facade over boost::mqtt5::mqtt_client<sim::stream, std::monostate, sim::recording_logger>.
// Only client_impl.cpp sees the library's implementation headers (and compiles them against virtual time).
#pragma once
#include <boost/asio/io_context.hpp>
#include <boost/mqtt5/types.hpp>
#include <boost/system/error_code.hpp>

#include <memory>
#include <string>
#include <vector>

namespace sim {

namespace mq = boost::mqtt5;
using boost::system::error_code;

// completion callbacks, implemented by the application script
struct AppSink {
    virtual ~AppSink() = default;
    virtual void on_run_done(int op, error_code ec) = 0;
    virtual void on_pub0_done(int op, error_code ec) = 0;
    virtual void on_pub_done(int op, error_code ec, uint8_t rc, const mq::puback_props& p1, const mq::pubcomp_props& p2, bool qos2) = 0;
    virtual void on_sub_done(int op, error_code ec, const std::vector<uint8_t>& rcs, const mq::suback_props& props) = 0;
    virtual void on_unsub_done(int op, error_code ec, const std::vector<uint8_t>& rcs, const mq::unsuback_props& props) = 0;
    virtual void on_recv_done(int op, error_code ec, std::string topic, std::string payload, const mq::publish_props& props) = 0;
    virtual void on_disconnect_done(int op, error_code ec) = 0;
    virtual void on_io_done(int op, error_code ec, std::size_t n) = 0;   // autoconnect_stream level operations (reconnection probe)
    virtual void on_dropped(int op) = 0;          // handler destroyed without having been invoked
};

struct ClientCfg {
    std::string brokers = "b0.sim";
    uint16_t default_port = 1883;
    std::string client_id = "cid", username, password;
    uint16_t keep_alive = 60; bool set_keep_alive = true;
    bool has_will = false;
    std::string will_topic, will_payload; uint8_t will_qos = 0; bool will_retain = false; mq::will_props will_props;
    mq::connect_props connect_props;
    bool use_authenticator = false; std::string auth_method = "SIM-AUTH"; int auth_fail_at_step = -1;
};

enum class SigType { none = 0, terminal = 1, partial = 2, total = 4 };

class IClient {
public:
    virtual ~IClient() = default;
    virtual void configure(const ClientCfg& cfg) = 0;
    // with_slot: bind a per-operation cancellation slot so that emit_signal(op, ...) can be used
    virtual void async_run(int op, bool with_slot) = 0;
    virtual void publish(int op, int qos, std::string topic, std::string payload, bool retain, const mq::publish_props& props, bool with_slot) = 0;
    virtual void subscribe(int op, const std::vector<mq::subscribe_topic>& topics, const mq::subscribe_props& props, bool with_slot) = 0;
    virtual void unsubscribe(int op, const std::vector<std::string>& topics, const mq::unsubscribe_props& props, bool with_slot) = 0;
    virtual void receive(int op, bool with_slot) = 0;
    virtual void disconnect(int op, uint8_t rc, const mq::disconnect_props& props, bool with_slot) = 0;
    virtual void cancel() = 0;
    virtual void re_authenticate() = 0;          // mqtt_client::re_authenticate() (no completion handler)
    virtual void destroy() = 0;                  // destroys the mqtt_client object
    virtual void move_assign_fresh() = 0;        // client = std::move(standby): replaces the client by a fresh one that stays alive elsewhere
    virtual bool alive() const = 0;
    virtual void emit_signal(int op, SigType type) = 0;
    virtual mq::connack_props connack_props() const = 0;
};

std::unique_ptr<IClient> make_client(boost::asio::io_context& ioc, AppSink& sink);

// The library's autoconnect_stream (connection lock, reconnect_op, shutdown_op, read/write ops) on its own, below the client:
// lets a workload issue reads, writes and shutdowns concurrently and cancel individual ones through their slots.
class IReconn {
public:
    virtual ~IReconn() = default;
    virtual void configure(const std::string& brokers, uint16_t default_port, const ClientCfg& cfg) = 0;
    virtual void open() = 0;
    virtual void read(int op, long long timeout_ms, bool with_slot) = 0;      // timeout_ms < 0: no read timeout
    virtual void write(int op, std::string bytes, bool with_slot) = 0;
    virtual void shutdown(int op, bool with_slot) = 0;
    // starts a reconnect_op for the stream that is current now (what a failed read/write/ping does), with a cancellable handler
    virtual void trigger(int op, bool with_slot) = 0;
    virtual void emit_signal(int op, SigType type) = 0;
    virtual void cancel() = 0;       // autoconnect_stream::cancel(): aborts lock waiters and the connect timer
    virtual void close() = 0;
    virtual bool is_open() const = 0;
};
std::unique_ptr<IReconn> make_reconn(boost::asio::io_context& ioc, AppSink& sink);
// reconnect_op on a minimal owner with public members (the library's own tests use the same device): waiters can be cancelled one by one
std::unique_ptr<IReconn> make_reconnect_probe(boost::asio::io_context& ioc, AppSink& sink);

}  // namespace sim
