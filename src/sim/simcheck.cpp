// simcheck: runs scenario families against the real client in the simulated world and judges the histories.
#include <cstdio>

#include "common/vutil.hpp"
#include "sim/families.hpp"
#include "sim/monitors.hpp"
#include "sim/scenario.hpp"

using namespace sim;

int main(int argc, char** argv) {
    vu::Args args(argc, argv);
    int shard, nshards; args.shard(shard, nshards);
    std::string prop = args.str("prop", "C01");
    std::string tier = args.str("tier", "quick");
    uint64_t seed = (uint64_t)args.num("seed", 1);
    vu::install_case_reporter();
    vu::Result res;
    FamilyCtx ctx{prop, tier == "thorough", seed, shard, nshards, args};
    int rc = run_families(ctx, res);
    res.write(args.str("out", "/dev/stdout"));
    return rc;
}
