#include <unistd.h>

#include <atomic>
#include <boost/asio/post.hpp>

#include <chrono>
#include <functional>
#include <queue>
#include <sstream>

#include "ref/lib2ref.hpp"
#include "sim/scenario.hpp"

namespace vu { extern void (*assert_hook)(const char* expr, const char* file, long line); }

namespace verif {
int64_t g_now_ns = 0;
static std::priority_queue<int64_t, std::vector<int64_t>, std::greater<int64_t>> g_expiries;
void note_expiry(int64_t abs_ns) { if (abs_ns > g_now_ns) g_expiries.push(abs_ns); }
}  // namespace verif

namespace sim {

extern std::atomic<long> g_time_value;

std::string Action::str() const {
    static const char* n[] = {"run", "publish", "subscribe", "unsubscribe", "cancel", "disconnect", "destroy", "signal",
                              "broker_publish", "net_kill", "spurious_ack", "hostile_bytes", "set_silent", "custom", "reauth", "replace", "broker_disconnect", "reconfigure", "receive",
                              "s_open", "s_read", "s_write", "s_shutdown", "s_cancel", "s_close", "s_trigger"};
    std::ostringstream o;
    if (chained) o << "+chained ";
    else if (handler_index >= 0) o << "@handler#" << handler_index << " ";
    else if (idle_index >= 0) o << "@idle#" << idle_index << " "; else o << "@" << at / 1e9 << "s ";
    if (in_handler) o << "[in-handler] ";
    o << n[kind];
    switch (kind) {
        case publish: case broker_publish: o << " qos=" << qos << (retain ? " retain" : "") << " topic=" << topic << " payload[" << payload.size() << "] props=" << ref::props_str(props); break;
        case subscribe: case unsubscribe: for (auto& s : subs) o << " " << s.first << ":" << int(s.second); o << " props=" << ref::props_str(props); break;
        case signal: o << " target=" << target << " type=" << int(sig); break;
        case disconnect: o << " rc=" << int(rc) << " props=" << ref::props_str(props); break;
        case net_kill: o << " ec#" << ec; break;
        case spurious_ack: o << " " << pkt.str(); break;
        case hostile_bytes: o << " " << vu::hex(bytes, 48); break;
        default: break;
    }
    if (with_slot) o << " [slot]";
    return o.str();
}

std::string Scenario::describe() const {
    std::ostringstream o;
    o << "family=" << family << " seed=" << seed << " index=" << index << " end=" << end / 1e9 << "s\n";
    o << "client: brokers=\"" << ccfg.brokers << "\" id=" << ccfg.client_id << " keep_alive=" << ccfg.keep_alive << (ccfg.has_will ? " will" : "") << (ccfg.use_authenticator ? " auth" : "") << "\n";
    o << "broker: rm=" << (bcfg.caps.receive_maximum ? std::to_string(*bcfg.caps.receive_maximum) : "-")
      << " maxqos=" << (bcfg.caps.maximum_qos ? std::to_string(*bcfg.caps.maximum_qos) : "-")
      << " mps=" << (bcfg.caps.maximum_packet_size ? std::to_string(*bcfg.caps.maximum_packet_size) : "-")
      << " ska=" << (bcfg.caps.server_keep_alive ? std::to_string(*bcfg.caps.server_keep_alive) : "-")
      << " ack_delay=[" << bcfg.ack_delay_min / 1e6 << "," << bcfg.ack_delay_max / 1e6 << "]ms lose_session%=" << bcfg.lose_session_pct
      << " fail_rc%=" << bcfg.fail_rc_pct << (bcfg.silent_after_connack ? " silent" : "") << "\n";
    o << "net: latency=[" << net.latency_min / 1e3 << "," << net.latency_max / 1e3 << "]us chunking=" << int(net.chunking)
      << " write_delay_max=" << net.write_done_delay_max / 1e3 << "us" << (net.shutdown_hangs ? " shutdown-hangs" : "") << "\n";
    for (size_t i = 0; i < attempts.size(); ++i)
        o << "attempt[" << i << "]: tcp=" << int(attempts[i].tcp) << " hs=" << int(attempts[i].hs) << " rc=" << int(attempts[i].refuse_rc) << " sp=" << attempts[i].session_present << "\n";
    for (auto& f : faults) o << "fault: kind=" << int(f.kind) << " conn#" << f.conn_ordinal << " at=" << f.at << " ec#" << f.ec << "\n";
    for (size_t i = 0; i < script.size(); ++i) o << "script[" << i << "]: " << script[i].str() << "\n";
    return o.str();
}

namespace {

std::string make_tag(int op) { char b[24]; snprintf(b, sizeof b, "v/%05d/", op); return b; }
// raw topics may carry the operation's tag behind a prefix: "{tag}" is replaced by "v/<op>/"
std::string with_tag(std::string s, const std::string& tag) { size_t p = s.find("{tag}"); if (p != std::string::npos) s.replace(p, 5, tag); return s; }

struct App : AppSink {
    World& w; Broker& b; const Scenario& sc; Run& run;
    std::unique_ptr<IClient> cl;
    std::unique_ptr<IReconn> rs;
    int depth = 0;
    int incarnation = 0;
    bool terminal = false;          // terminal call made in the current incarnation
    bool expect_drain = false;      // the driver must check ioc.stopped() at the next idle point
    bool running = false;
    int disconnect_op = -1;
    int last_run_incarnation = -1;
    std::map<int, int> disconnect_incarnation;

    App(World& w, Broker& b, const Scenario& sc, Run& run, asio::io_context& ioc) : w(w), b(b), sc(sc), run(run) {
        if (sc.stream_mode == 2) rs = make_reconnect_probe(ioc, *this); else if (sc.stream_mode) rs = make_reconn(ioc, *this); else cl = make_client(ioc, *this);
    }
    void on_io_done(int op, error_code ec, std::size_t n) override { auto* r = done(op, ec); if (r->completions == 1) r->rcs = {uint8_t(n > 255 ? 255 : n)}; }

    OpRec& new_op(OpKind k) {
        OpRec r; r.id = (int)w.h.ops.size(); r.kind = k; r.seq_init = w.next_seq(); r.t_init = w.now(); r.incarnation = incarnation; r.after_terminal = terminal;
        w.h.ops.push_back(r);
        w.log(Ev::api_init, r.id, int(k), 0, op_kind_name(k));
        return w.h.ops.back();
    }
    std::map<int, std::vector<size_t>> followups;      // op id -> script entries to execute from inside its completion handler
    OpRec* done(int op, error_code ec) {
        {
            auto& r = w.h.ops[op];
            r.completions++;
            if (r.completions == 1) { r.seq_done = w.next_seq(); r.t_done = w.now(); r.ec = ec; r.depth_at_done = depth; }
            w.log(Ev::api_done, op, r.completions, depth, std::string(op_kind_name(r.kind)) + " " + ec_name(ec));
        }
        auto fu = followups.find(op);
        if (fu != followups.end() && w.h.ops[op].completions == 1 && ec != asio::error::operation_aborted) {
            // what an application does all the time: start the next request from inside a completion handler
            auto list = fu->second; followups.erase(fu);
            for (size_t k : list) { w.log(Ev::note, op, (int)k, 0, "script: follow-up request issued from inside the completion handler"); run.script_op[k] = exec(sc.script[k]); }
        }
        return &w.h.ops[op];     // (the vector may have grown)
    }
    void on_dropped(int op) override {
        if (!World::cur) return;
        auto& r = w.h.ops[op]; r.dropped = true; r.seq_dropped = w.next_seq();
        w.log(Ev::api_dropped, op, -1, 0, op_kind_name(r.kind));
    }
    void on_run_done(int op, error_code ec) override { done(op, ec); running = false; }
    void on_pub0_done(int op, error_code ec) override { done(op, ec); }
    void on_pub_done(int op, error_code ec, uint8_t rc, const mq::puback_props& p1, const mq::pubcomp_props& p2, bool qos2) override {
        auto* r = done(op, ec);
        if (r->completions == 1) { r->rcs = {rc}; r->done_props = qos2 ? l2r::to_ref(p2) : l2r::to_ref(p1); }
    }
    void on_sub_done(int op, error_code ec, const std::vector<uint8_t>& rcs, const mq::suback_props& props) override {
        auto* r = done(op, ec);
        if (r->completions == 1) { r->rcs = rcs; r->done_props = l2r::to_ref(props); }
    }
    void on_unsub_done(int op, error_code ec, const std::vector<uint8_t>& rcs, const mq::unsuback_props& props) override {
        auto* r = done(op, ec);
        if (r->completions == 1) { r->rcs = rcs; r->done_props = l2r::to_ref(props); }
    }
    void on_recv_done(int op, error_code ec, std::string topic, std::string payload, const mq::publish_props& props) override {
        auto* r = done(op, ec);
        if (r->completions == 1) { r->r_topic = std::move(topic); r->r_payload = std::move(payload); r->r_props = l2r::to_ref(props); }
        // keep one receive armed; operations issued after the terminal call would belong to the next incarnation
        if (sc.auto_receive && !terminal && cl && cl->alive() && ec != asio::error::operation_aborted) arm_receive();
    }
    void on_disconnect_done(int op, error_code ec) override {
        done(op, ec);
        // a run started after this disconnect was initiated belongs to the next incarnation and keeps working
        bool newer_run = last_run_incarnation > disconnect_incarnation[op];
        if (!newer_run) { expect_drain = true; running = false; }
    }

    void arm_receive() {
        auto& r = new_op(OpKind::recv);
        ++depth; cl->receive(r.id, false); --depth;
    }

    bool busy(OpKind k) const { for (auto& o : w.h.ops) if (o.kind == k && !o.completions) return true; return false; }

    int exec_stream(const Action& a) {
        int op = -1;
        switch (a.kind) {
            case Action::s_open:
                // (re)opening starts a new incarnation of the same stream object: operations are accepted again
                if (terminal) { w.log(Ev::note, -1, -1, 0, "script: stream reopened after cancel()+close()"); terminal = false; expect_drain = false; }
                rs->open(); break;
            // like the client's own use of the stream: at most one read, one write and one shutdown outstanding
            case Action::s_read: { if (busy(OpKind::s_read) || terminal) break; auto& r = new_op(OpKind::s_read); op = r.id; ++depth; rs->read(op, a.timeout_ms, a.with_slot); --depth; break; }
            case Action::s_write: { if (busy(OpKind::s_write) || terminal) break; auto& r = new_op(OpKind::s_write); op = r.id; r.payload = a.payload; ++depth; rs->write(op, a.payload, a.with_slot); --depth; break; }
            case Action::s_shutdown: { if (busy(OpKind::s_shutdown) || terminal) break; auto& r = new_op(OpKind::s_shutdown); op = r.id; ++depth; rs->shutdown(op, a.with_slot); --depth; break; }
            case Action::s_cancel:
                w.log(Ev::terminal, -1, 0, 0, "stream cancel()+close()");
                terminal = true; w.terminal_called = true; ++incarnation;
                ++depth; rs->cancel(); rs->close(); --depth;
                expect_drain = true;
                break;
            case Action::s_close: ++depth; rs->close(); --depth; break;
            case Action::s_trigger: { if (terminal) break; auto& r = new_op(OpKind::s_write); op = r.id; r.tag = "trigger"; ++depth; rs->trigger(op, a.with_slot); --depth; break; }
            case Action::signal: {
                if (a.target < 0 || a.target >= (int)run.script_op.size()) break;
                int t = run.script_op[a.target];
                if (t < 0 || w.h.ops[t].completions) break;
                auto& r = w.h.ops[t]; r.signalled = true; r.seq_signal = w.next_seq(); r.signal_type = int(a.sig);
                w.log(Ev::signal, t, int(a.sig));
                ++depth; rs->emit_signal(t, a.sig); --depth;
                break;
            }
            case Action::net_kill:
                if (auto c = b.current()) { w.log(Ev::fault, c->id, -1, 0, "scripted connection loss"); error_code ec = w.reconnectable_error(a.ec); w.kill(c, ec, ec == asio::error::eof ? error_code(asio::error::broken_pipe) : ec, "scripted kill"); }
                break;
            case Action::custom: if (a.fn) a.fn(); break;
            default: break;
        }
        return op;
    }

    int exec(const Action& a) {
        if (sc.stream_mode) return exec_stream(a);
        int op = -1;
        switch (a.kind) {
            case Action::run: {
                if (!cl->alive()) break;
                if (running) { w.log(Ev::note, -1, -1, 0, "script: async_run skipped, the client is already running"); break; }
                auto& r = new_op(OpKind::run); op = r.id;
                terminal = false; running = true; last_run_incarnation = incarnation; expect_drain = false;
                ++depth; cl->async_run(r.id, a.with_slot); --depth;
                if (sc.auto_receive) arm_receive();
                break;
            }
            case Action::publish: {
                if (!cl->alive()) break;
                auto& r = new_op(a.qos == 0 ? OpKind::pub0 : a.qos == 1 ? OpKind::pub1 : OpKind::pub2); op = r.id;
                r.tag = make_tag(r.id);
                r.topic = a.raw_topic ? with_tag(a.topic, r.tag) : r.tag + a.topic;
                r.payload = a.payload; r.retain = a.retain; r.props = a.props; r.immediate_expected = a.expect_immediate; r.expect_ec = a.expect_ec; r.expect_ec = a.expect_ec;
                mq::publish_props pp; l2r::from_ref(a.props, pp);
                std::string topic = r.topic, payload = r.payload;
                ++depth; cl->publish(op, a.qos, std::move(topic), std::move(payload), a.retain, pp, a.with_slot); --depth;
                break;
            }
            case Action::subscribe: {
                if (!cl->alive()) break;
                auto& r = new_op(OpKind::sub); op = r.id;
                r.tag = make_tag(r.id);
                std::vector<mq::subscribe_topic> topics;
                for (auto& s : a.subs) { std::string f = a.raw_topic ? with_tag(s.first, r.tag) : r.tag + s.first; r.subs.emplace_back(f, s.second); topics.push_back({f, l2r::sub_opts_from(s.second)}); }
                r.props = a.props; r.immediate_expected = a.expect_immediate; r.expect_ec = a.expect_ec;
                mq::subscribe_props sp; l2r::from_ref(a.props, sp);
                ++depth; cl->subscribe(op, topics, sp, a.with_slot); --depth;
                break;
            }
            case Action::unsubscribe: {
                if (!cl->alive()) break;
                auto& r = new_op(OpKind::unsub); op = r.id;
                r.tag = make_tag(r.id);
                std::vector<std::string> topics;
                for (auto& s : a.subs) { std::string f = a.raw_topic ? with_tag(s.first, r.tag) : r.tag + s.first; r.unsubs.push_back(f); topics.push_back(f); }
                r.props = a.props; r.immediate_expected = a.expect_immediate; r.expect_ec = a.expect_ec;
                mq::unsubscribe_props up; l2r::from_ref(a.props, up);
                ++depth; cl->unsubscribe(op, topics, up, a.with_slot); --depth;
                break;
            }
            case Action::cancel:
                if (!cl->alive()) break;
                w.log(Ev::terminal, -1, 0, 0, "cancel()");
                terminal = true; w.terminal_called = true; ++incarnation;
                ++depth; cl->cancel(); --depth;
                expect_drain = true;
                break;
            case Action::disconnect: {
                if (!cl->alive()) break;
                auto& r = new_op(OpKind::disconnect); op = r.id; disconnect_op = op;
                r.disc_rc = a.rc; r.props = a.props; r.immediate_expected = a.expect_immediate; r.expect_ec = a.expect_ec;
                mq::disconnect_props dp; l2r::from_ref(a.props, dp);
                if (a.expect_immediate) {
                    // the reference model says this request fails validation: the client is expected to stay as it is
                    w.log(Ev::note, op, -1, 0, "script: async_disconnect with ill-formed properties (expected to be refused)");
                    ++depth; cl->disconnect(op, a.rc, dp, a.with_slot); --depth;
                    break;
                }
                w.log(Ev::terminal, op, 1, 0, "async_disconnect");
                disconnect_incarnation[op] = incarnation;
                terminal = true; w.terminal_called = true; ++incarnation;
                ++depth; cl->disconnect(op, a.rc, dp, a.with_slot); --depth;
                break;
            }
            case Action::replace:
                if (!cl->alive()) break;
                w.log(Ev::terminal, -1, 0, 0, "client = std::move(fresh client)");
                terminal = true; w.terminal_called = true; ++incarnation; running = false;
                ++depth; cl->move_assign_fresh(); --depth;
                expect_drain = true;
                break;
            case Action::destroy:
                if (!cl->alive()) break;
                w.log(Ev::terminal, -1, 2, 0, "destroy");
                terminal = true; w.terminal_called = true; ++incarnation;
                ++depth; cl->destroy(); --depth;
                expect_drain = true;
                break;
            case Action::signal: {
                if (a.target < 0 || a.target >= (int)run.script_op.size()) break;
                int t = run.script_op[a.target];
                if (t < 0) break;
                auto& r = w.h.ops[t];
                if (r.completions) break;     // nothing to cancel any more
                r.signalled = true; r.seq_signal = w.next_seq(); r.signal_type = int(a.sig);
                w.log(Ev::signal, t, int(a.sig));
                // documented: a terminal signal on run/publish/subscribe/unsubscribe/disconnect cancels the whole client;
                // total and partial only mark the operation (it completes with operation_aborted instead of being re-sent)
                bool whole = a.sig == SigType::terminal && r.kind != OpKind::recv;
                if (whole) { w.log(Ev::terminal, t, 3, 0, "terminal cancellation signal"); terminal = true; w.terminal_called = true; ++incarnation; }
                ++depth; cl->emit_signal(t, a.sig); --depth;
                if (whole) expect_drain = true;
                break;
            }
            case Action::broker_publish:
                b.publish_to_client("in/" + std::to_string(b.out.size()) + "/", "in/" + std::to_string(b.out.size()) + "/" + a.topic, a.payload, (uint8_t)a.qos, a.retain, a.props, a.fit_delta);
                break;
            case Action::net_kill:
                if (auto c = b.current()) { w.log(Ev::fault, c->id, -1, 0, "scripted connection loss"); error_code ec = w.reconnectable_error(a.ec); w.kill(c, ec, ec == asio::error::eof ? error_code(asio::error::broken_pipe) : ec, "scripted kill"); }
                break;
            case Action::spurious_ack:
                if (auto c = b.current()) b.send_packet(c, a.pkt, BKind::spurious);
                break;
            case Action::hostile_bytes:
                if (auto c = b.current()) b.send_raw(c, a.bytes, BKind::hostile, "hostile");
                break;
            case Action::set_silent: b.cfg.silent_after_connack = a.qos != 0; break;
            case Action::broker_disconnect:
                // the Server ends the connection: (optionally a last message and then) DISCONNECT with a reason code a Server may send, then closes
                if (auto c = b.current()) {
                    b.hold();
                    if (!a.payload.empty()) b.publish_to_client("in/" + std::to_string(b.out.size()) + "/", "in/" + std::to_string(b.out.size()) + "/last", a.payload, 0, false, {});
                    ref::Packet d; d.type = ref::DISCONNECT; d.rc = a.rc; d.props = a.props;
                    b.send_packet(c, d, BKind::normal);
                    b.flush(c);
                    w.broker_close(c, false);
                }
                break;
            case Action::reconfigure:
                if (!cl->alive() || !sc.has_ccfg2 || running) break;
                w.log(Ev::note, -1, -1, 0, "script: reconfigure");
                cl->configure(sc.ccfg2);
                break;
            case Action::receive:      // an async_receive armed by the script (on a client that is not running, for instance)
                if (!cl->alive()) break;
                arm_receive();
                break;
            case Action::reauth:
                if (!cl->alive()) break;
                w.log(Ev::note, -1, -1, 0, "script: re_authenticate()");
                ++depth; cl->re_authenticate(); --depth;
                break;
            case Action::custom: if (a.fn) a.fn(); break;
        }
        return op;
    }
};

void on_assert(const char* expr, const char* file, long line) {
    if (World::cur) { World::cur->assert_count++; World::cur->log(Ev::assert_fired, -1, -1, line, std::string(expr) + " at " + file); }
}

}  // namespace

std::unique_ptr<Execution> execute(const Scenario& sc) {
    auto ex = std::make_unique<Execution>();
    while (!verif::g_expiries.empty()) verif::g_expiries.pop();
    g_time_value = 1700000000 + long(sc.seed % 100000);
    ex->world.reset(new World(sc.seed * 2654435761u + sc.index));
    World& w = *ex->world;
    w.net = sc.net; w.attempts = sc.attempts; w.default_attempt = sc.default_attempt; w.faults = sc.faults;
    ex->broker.reset(new Broker(w, sc.bcfg));
    Broker& br = *ex->broker;
    br.auth_method = sc.ccfg.auth_method; br.auth_rounds = sc.broker_auth_rounds;
    Run& run = ex->run;
    run.sc = &sc; run.w = &w; run.broker = &br;
    run.script_op.assign(sc.script.size(), -1);
    vu::assert_hook = on_assert;

    auto* ioc = new asio::io_context(1);
    auto* app = new App(w, br, sc, run, *ioc);
    if (sc.stream_mode) app->rs->configure(sc.ccfg.brokers, sc.ccfg.default_port, sc.ccfg); else app->cl->configure(sc.ccfg);

    // runs script entry i and the entries chained to it; in_handler entries are executed from a posted handler
    // script entries to be executed from inside the completion handler of entry i (indexed once: scripts can have 10^5 entries)
    std::map<int, std::vector<size_t>> after_of;
    for (size_t k = 0; k < sc.script.size(); ++k) if (sc.script[k].after_script >= 0) after_of[sc.script[k].after_script].push_back(k);
    std::function<void(size_t)> run_entry = [app, &run, &sc, ioc, &run_entry, &after_of](size_t i) {
        auto go = [app, &run, &sc, i, &after_of] {
            run.script_op[i] = app->exec(sc.script[i]);
            if (run.script_op[i] >= 0) { auto it = after_of.find((int)i); if (it != after_of.end()) for (size_t k : it->second) app->followups[run.script_op[i]].push_back(k); }
            for (size_t k = i + 1; k < sc.script.size() && sc.script[k].chained; ++k) run.script_op[k] = app->exec(sc.script[k]);
        };
        if (sc.script[i].in_handler) asio::post(*ioc, go); else go();
    };
    std::map<int, std::vector<size_t>> idle_actions, handler_actions;
    for (size_t i = 0; i < sc.script.size(); ++i) {
        const Action& a = sc.script[i];
        if (a.chained || a.after_script >= 0) continue;
        if (a.handler_index >= 0) handler_actions[a.handler_index].push_back(i);
        else if (a.idle_index >= 0) idle_actions[a.idle_index].push_back(i);
        else w.at(a.at, [&run_entry, i] { run_entry(i); });
    }

    RunOutcome& out = run.out;
    const uint64_t step_cap_instant = 2000000, step_cap_total = 30000000;
    uint64_t total = 0;
    bool main_phase = true;
    auto drain = [&]() -> bool {   // runs ready handlers; false on exception / livelock
        uint64_t n = 0;
        try {
            for (;;) {
                if (ioc->stopped()) ioc->restart();
                std::size_t k = ioc->poll_one();
                if (!k) break;
                if (main_phase) {
                    ++out.handler_boundaries;
                    auto ha = handler_actions.find((int)out.handler_boundaries);
                    if (ha != handler_actions.end()) {
                        // between two handlers, with whatever else is already queued: where a cancel() issued by
                        // some other handler of the application would land
                        w.log(Ev::note, (int)out.handler_boundaries, -1, 0, "script action between handlers");
                        for (size_t i : ha->second) run_entry(i);
                        handler_actions.erase(ha);
                    }
                }
                if (++n > step_cap_instant || ++total > step_cap_total) { out.hang = true; w.log(Ev::hang, -1, -1, (int64_t)n, "handler livelock at one virtual instant"); return false; }
            }
        } catch (const std::exception& e) {
            out.exception = true; out.exception_what = e.what();
            w.log(Ev::exception, -1, -1, 0, e.what());
            return false;
        } catch (...) {
            out.exception = true; out.exception_what = "non-std exception";
            w.log(Ev::exception, -1, -1, 0, "non-std exception");
            return false;
        }
        out.handlers += n;
        return true;
    };
    // waits (in real time) for asio's resolver thread; the interposed getaddrinfo answers instantly
    auto settle = [&]() -> bool {
        for (;;) {
            if (!drain()) return false;
            if (w.resolving <= 0) return true;
            auto t0 = std::chrono::steady_clock::now();
            for (;;) {
                if (ioc->stopped()) ioc->restart();
                std::size_t k = 0;
                try { k = ioc->poll_one(); } catch (const std::exception& e) { out.exception = true; out.exception_what = e.what(); w.log(Ev::exception, -1, -1, 0, e.what()); return false; }
                if (k) { out.handlers++; break; }
                if (std::chrono::steady_clock::now() - t0 > std::chrono::seconds(30)) { out.harness_failure = true; out.harness_what = "resolver thread did not answer within 30 s of real time"; return false; }
                usleep(20);
            }
        }
    };
    auto check_drain = [&]() {
        if (!app->expect_drain) return;
        app->expect_drain = false;
        // the terminal action has been processed without advancing the clock: nothing may be left behind
        bool stopped = ioc->stopped();
        w.log(stopped ? Ev::stopped : Ev::not_stopped, w.live_stream_ops(), -1, 0, stopped ? "execution context ran out of work" : "execution context still has work after the terminal action drained");
    };

    bool ok = true;
    while (ok) {
        ok = settle();
        if (!ok) break;
        ++out.idle_points;
        check_drain();
        auto ia = idle_actions.find((int)out.idle_points);
        if (ia != idle_actions.end()) {
            w.log(Ev::idle, (int)out.idle_points);
            for (size_t i : ia->second) run_entry(i);
            idle_actions.erase(ia);
            continue;
        }
        // next instant at which anything can happen
        while (!verif::g_expiries.empty() && verif::g_expiries.top() <= verif::g_now_ns) verif::g_expiries.pop();
        vt next = -1;
        if (w.has_events()) next = w.next_event_time();
        if (!verif::g_expiries.empty() && (next < 0 || verif::g_expiries.top() < next)) next = verif::g_expiries.top();
        if (next < 0 || next > sc.end) break;
        w.log(Ev::idle, (int)out.idle_points);
        if (w.has_events() && w.next_event_time() <= next) w.fire_next();
        else { verif::g_now_ns = next; if (out.timer_instants.size() < 400) out.timer_instants.push_back(next); }
    }
    // an async_disconnect still in flight at the end of the script is allowed its 5 s
    vt saved_end = sc.end;
    if (ok && app->disconnect_op >= 0 && !w.h.ops[app->disconnect_op].completions) {
        vt limit = std::max(sc.end, w.h.ops[app->disconnect_op].t_init + 6 * SEC);
        while (ok && !w.h.ops[app->disconnect_op].completions) {
            ok = settle();
            if (!ok) break;
            ++out.idle_points;
            check_drain();
            while (!verif::g_expiries.empty() && verif::g_expiries.top() <= verif::g_now_ns) verif::g_expiries.pop();
            vt next = -1;
            if (w.has_events()) next = w.next_event_time();
            if (!verif::g_expiries.empty() && (next < 0 || verif::g_expiries.top() < next)) next = verif::g_expiries.top();
            if (next < 0 || next > limit) break;
            if (w.has_events() && w.next_event_time() <= next) w.fire_next(); else verif::g_now_ns = next;
        }
        if (ok) { ok = settle(); if (ok) check_drain(); }
    }
    (void)saved_end;
    if (verif::g_now_ns < sc.end && ok) verif::g_now_ns = sc.end;
    out.t_end = verif::g_now_ns;

    main_phase = false;
    // final phase: cancel + destroy, then the context must run out of work without the clock advancing
    if (ok && sc.final_cancel) {
        w.log(Ev::note, -1, -1, 0, "final phase");
        if (sc.stream_mode) { Action c; c.kind = Action::s_cancel; app->exec(c); }
        else if (app->cl->alive()) {
            Action c; c.kind = Action::cancel; app->exec(c);
            Action d; d.kind = Action::destroy; app->exec(d);
        }
        ok = settle();
        if (ok) { app->expect_drain = true; check_drain(); out.final_stopped = ioc->stopped(); }
    }
    vu::assert_hook = nullptr;
    if (ok && ioc->stopped() && w.live_stream_ops() == 0) {
        delete app;
        delete ioc;
    } else {
        // never destroy an io_context that still holds library handlers (Boost 1.83 any_completion_handler
        // frees the nested handler before deallocating): leak the lot
        ex->leaked = ioc;
    }
    return ex;
}

}  // namespace sim
