// Link-level interposition of the two libc entry points the client reaches that would otherwise make runs
// depend on the outside world: name resolution (offline, instant, scripted) and time(0) (back-off jitter seed).
#include <arpa/inet.h>
#include <netdb.h>
#include <netinet/in.h>
#include <sys/socket.h>

#include <atomic>
#include <cstdlib>
#include <cstring>
#include <ctime>
#include <string>

namespace sim {
std::atomic<long> g_time_value{1700000000};
std::atomic<int> g_resolutions{0};
}  // namespace sim

extern "C" time_t time(time_t* t) {
    time_t v = (time_t)sim::g_time_value.load();
    if (t) *t = v;
    return v;
}

namespace {
addrinfo* make(uint32_t ip_host_order, uint16_t port) {
    auto* ai = static_cast<addrinfo*>(calloc(1, sizeof(addrinfo)));
    auto* sa = static_cast<sockaddr_in*>(calloc(1, sizeof(sockaddr_in)));
    sa->sin_family = AF_INET; sa->sin_port = htons(port); sa->sin_addr.s_addr = htonl(ip_host_order);
    ai->ai_family = AF_INET; ai->ai_socktype = SOCK_STREAM; ai->ai_protocol = IPPROTO_TCP;
    ai->ai_addrlen = sizeof(sockaddr_in); ai->ai_addr = reinterpret_cast<sockaddr*>(sa);
    return ai;
}
}  // namespace

// Names: b<N>.sim -> 10.0.0.(N+1); multi.sim -> 10.0.1.1 and 10.0.1.2; nx*.sim / anything else -> EAI_NONAME;
// dotted quads resolve to themselves.
extern "C" int getaddrinfo(const char* node, const char* service, const addrinfo*, addrinfo** res) {
    sim::g_resolutions++;
    if (!node || !res) return EAI_NONAME;
    uint16_t port = service ? (uint16_t)atoi(service) : 0;
    std::string h = node;
    in_addr a;
    if (inet_pton(AF_INET, node, &a) == 1) { *res = make(ntohl(a.s_addr), port); return 0; }
    if (h.size() > 5 && h[0] == 'b' && h.substr(h.size() - 4) == ".sim") {
        int n = atoi(h.c_str() + 1);
        *res = make((10u << 24) | (unsigned(n) + 1), port);
        return 0;
    }
    if (h == "multi.sim") {
        addrinfo* a1 = make((10u << 24) | (1u << 8) | 1, port);
        a1->ai_next = make((10u << 24) | (1u << 8) | 2, port);
        *res = a1;
        return 0;
    }
    return EAI_NONAME;
}

extern "C" void freeaddrinfo(addrinfo* ai) {
    while (ai) { addrinfo* n = ai->ai_next; free(ai->ai_addr); free(ai); ai = n; }
}
