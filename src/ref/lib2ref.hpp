// Conversions between the library's public value types and the reference domain.
// Needs only the library's type headers (no asio).
#pragma once
#include <boost/mqtt5/property_types.hpp>
#include <boost/mqtt5/types.hpp>

#include <optional>
#include <string>
#include <type_traits>

#include "ref/refcodec.hpp"

namespace l2r {

namespace mq = boost::mqtt5;

template <typename T> struct is_opt : std::false_type {};
template <typename T> struct is_opt<std::optional<T>> : std::true_type {};

template <typename PropsT>
ref::Props to_ref(const PropsT& props) {
    ref::Props out;
    props.visit([&out](const auto& key, const auto& val) -> bool {
        uint8_t id = static_cast<uint8_t>(static_cast<mq::prop::property_type>(key));
        using T = std::decay_t<decltype(val)>;
        if constexpr (is_opt<T>::value) {
            if (val.has_value()) {
                ref::Prop p; p.id = id;
                using V = typename T::value_type;
                if constexpr (std::is_same_v<V, std::string>) p.s1 = *val;
                else p.num = static_cast<uint64_t>(*val);
                out.push_back(std::move(p));
            }
        } else if constexpr (std::is_same_v<T, mq::prop::user_property_value_t>) {
            for (auto& kv : val) { ref::Prop p; p.id = id; p.s1 = kv.first; p.s2 = kv.second; out.push_back(std::move(p)); }
        } else {   // subscription identifiers
            for (auto v : val) { ref::Prop p; p.id = id; p.num = static_cast<uint64_t>(static_cast<uint32_t>(v)); out.push_back(std::move(p)); }
        }
        return true;
    });
    return out;
}

// returns false if some property of `in` has no slot in PropsT
template <typename PropsT>
bool from_ref(const ref::Props& in, PropsT& out) {
    bool all = true;
    for (auto& p : in) {
        bool not_found = out.apply_on(p.id, [&p](auto& slot) {
            using T = std::decay_t<decltype(slot)>;
            if constexpr (is_opt<T>::value) {
                using V = typename T::value_type;
                if constexpr (std::is_same_v<V, std::string>) slot = p.s1;
                else slot = static_cast<V>(p.num);
            } else if constexpr (std::is_same_v<T, mq::prop::user_property_value_t>) {
                slot.emplace_back(p.s1, p.s2);
            } else {
                slot.push_back(static_cast<int32_t>(p.num));
            }
        });
        if (not_found) all = false;
    }
    return all;
}

inline uint8_t sub_opts_byte(const mq::subscribe_options& o) {
    return uint8_t((uint8_t(o.retain_handling) << 4) | (uint8_t(o.retain_as_published) << 3) | (uint8_t(o.no_local) << 2) | uint8_t(o.max_qos));
}
inline mq::subscribe_options sub_opts_from(uint8_t b) {
    mq::subscribe_options o;
    o.max_qos = mq::qos_e(b & 3); o.no_local = mq::no_local_e((b >> 2) & 1);
    o.retain_as_published = mq::retain_as_published_e((b >> 3) & 1); o.retain_handling = mq::retain_handling_e((b >> 4) & 3);
    return o;
}

}  // namespace l2r
