// Generators of well-formed MQTT 5 packets in the reference domain (values, not bytes).
#pragma once
#include <algorithm>
#include <string>
#include <vector>

#include "common/vutil.hpp"
#include "ref/refcodec.hpp"

namespace ref {

struct Gen {
    vu::Rng& rng;
    size_t max_str = 300;        // typical upper bound for strings
    bool big = false;            // allow boundary sizes (16383/16384/65535 strings, payloads over varint boundaries)
    explicit Gen(vu::Rng& r) : rng(r) {}

    std::string text(size_t len) {
        static const char* frag[] = {"a", "b", "z", "0", "_", "-", ".", "t", "\xC3\xA9", "\xE2\x82\xAC", "\xF0\x9F\x98\x80", "\xC2\xA0", "\xEF\xBF\xBD", "\xF4\x8F\xBF\xBD"};
        std::string s;
        while (s.size() < len) {
            const char* f = frag[rng.below(sizeof frag / sizeof *frag)];
            if (s.size() + strlen(f) > len) f = "x";
            s += f;
        }
        return s;
    }
    size_t str_len() {
        if (big && rng.chance(1, 12)) { static const size_t b[] = {127, 128, 129, 16383, 16384, 65534, 65535}; return b[rng.below(7)]; }
        switch (rng.below(6)) { case 0: return 0; case 1: return 1; case 2: return rng.range(2, 12); case 3: return rng.range(2, 40); case 4: return rng.range(std::min<size_t>(100, max_str), max_str); default: return rng.range(1, 20); }
    }
    std::string utf8() { return text(str_len()); }
    std::string binary() {
        size_t n = str_len(); std::string s(n, 0);
        for (auto& c : s) c = char(rng.below(256));
        return s;
    }
    std::string topic(bool allow_empty = false) {
        if (allow_empty && rng.chance(1, 6)) return "";
        std::string s;
        int levels = (int)rng.range(1, 4);
        for (int i = 0; i < levels; ++i) { if (i) s += "/"; s += text(rng.range(i == 0 ? 1 : 0, 10)); }
        if (big && rng.chance(1, 30)) s += "/" + text(rng.chance(1, 2) ? 65535 - s.size() - 1 : 16384);
        return s;
    }
    std::string filter() {
        std::string s;
        int levels = (int)rng.range(1, 4);
        for (int i = 0; i < levels; ++i) {
            if (i) s += "/";
            if (rng.chance(1, 5)) s += "+";
            else if (i == levels - 1 && rng.chance(1, 5)) s += "#";
            else s += text(rng.range(i == 0 && levels == 1 ? 1 : 0, 8));
        }
        if (s.empty()) s = "f";
        if (rng.chance(1, 8)) s = "$share/" + text(rng.range(1, 5)) + "/" + s;
        // share names must not contain '/', text() never produces it
        return s;
    }
    uint64_t num(VT vt, uint8_t id) {
        switch (id) {
            case 0x01: case 0x17: case 0x19: case 0x24: case 0x25: case 0x28: case 0x29: case 0x2A: return rng.below(2);
            default: break;
        }
        uint64_t max = vt == VT::byte ? 0xFF : vt == VT::u16 ? 0xFFFF : vt == VT::u32 ? 0xFFFFFFFFull : 268435455ull;
        uint64_t v;
        switch (rng.below(5)) {
            case 0: v = 1; break;
            case 1: v = max; break;
            case 2: { static const uint64_t b[] = {127, 128, 16383, 16384, 2097151, 2097152, 255, 256, 65535, 65536}; v = b[rng.below(10)]; break; }
            default: v = rng.below(max) + 1; break;
        }
        if (v > max) v = max;
        if (v == 0) v = 1;
        return v;
    }
    Prop prop(const PropInfo& pi) {
        Prop p; p.id = pi.id;
        switch (pi.vt) {
            case VT::utf8: p.s1 = utf8(); break;
            case VT::binary: p.s1 = binary(); break;
            case VT::pair: p.s1 = utf8(); p.s2 = utf8(); break;
            default: p.num = num(pi.vt, pi.id); break;
        }
        if (pi.id == 0x08) p.s1 = topic();   // response topic is a topic name
        return p;
    }
    // props allowed for ptype; `mask` selects which of them are present (bit i = i-th allowed property), -1 = random
    Props props(uint8_t ptype, int64_t mask = -1, const std::vector<uint8_t>& exclude = {}) {
        Props out;
        int i = 0;
        for (auto& pi : all_props()) {
            if (!(pi.allowed & (1u << ptype))) continue;
            bool ex = std::find(exclude.begin(), exclude.end(), pi.id) != exclude.end();
            bool present = mask >= 0 ? ((mask >> i) & 1) : rng.chance(1, 3);
            ++i;
            if (!present || ex) continue;
            int reps = 1;
            if (pi.multi && !(pi.id == 0x0B && ptype != PUBLISH)) reps = rng.chance(1, 4) ? (int)rng.range(2, 5) : 1;
            if (pi.id == 0x26 && big && rng.chance(1, 40)) reps = (int)rng.range(50, 300);
            for (int r = 0; r < reps; ++r) out.push_back(prop(pi));
        }
        // MQTT 5 prescribes no order inside a property block: half of the blocks are permuted, so that repeated properties
        // (User Property, Subscription Identifier) are also met interleaved with others
        if (out.size() > 1 && rng.chance(1, 2))
            for (size_t i = out.size() - 1; i > 0; --i) std::swap(out[i], out[rng.below(i + 1)]);
        return out;
    }
    static int prop_count(uint8_t ptype) {
        int n = 0;
        for (auto& pi : all_props()) if (pi.allowed & (1u << ptype)) ++n;
        return n;
    }
    std::string payload() {
        size_t n;
        if (big && rng.chance(1, 15)) { static const size_t b[] = {16383, 16384, 16390, 2097151, 2097152, 2097160}; n = b[rng.below(6)]; }
        else n = rng.chance(1, 5) ? 0 : rng.range(1, 200);
        std::string s(n, 0);
        for (size_t i = 0; i < n; ++i) s[i] = char(i < 64 || (i & 1023) == 0 ? rng.below(256) : 'p');
        return s;
    }
    uint8_t rc(uint8_t ptype, Dir dir) { auto& l = rc_list(ptype, dir); return l.empty() ? 0 : l[rng.below(l.size())]; }
    uint16_t pid() { switch (rng.below(4)) { case 0: return 1; case 1: return 65535; default: return (uint16_t)rng.range(1, 65535); } }

    // a well-formed packet a Server may send
    Packet server_packet(uint8_t type, int64_t mask = -1) {
        Packet p; p.type = type;
        switch (type) {
            case CONNACK:
                p.session_present = rng.chance(1, 2);
                p.rc = rc(CONNACK, Dir::from_server);
                if (p.rc) p.session_present = false;
                p.props = props(CONNACK, mask);
                break;
            case PUBLISH:
                p.qos = (uint8_t)rng.below(3); p.retain = rng.chance(1, 3); p.dup = p.qos && rng.chance(1, 4);
                p.topic = topic(); if (p.qos) p.pid = pid();
                p.props = props(PUBLISH, mask);
                // an established Topic Alias stands for the name: MQTT 5 then permits (and brokers send) a zero-length Topic Name
                for (auto& x : p.props) if (x.id == 0x23 && rng.chance(1, 2)) p.topic.clear();
                p.payload = payload();
                break;
            case PUBACK: case PUBREC: case PUBREL: case PUBCOMP:
                p.pid = pid(); p.rc = rc(type, Dir::from_server); p.props = props(type, mask);
                if (p.props.empty()) p.short_form = (uint8_t)rng.below(p.rc == 0 ? 3 : 2);
                break;
            case SUBACK: case UNSUBACK: {
                p.pid = pid(); p.props = props(type, mask);
                size_t n = rng.chance(1, 20) ? rng.range(100, 2000) : rng.range(1, 6);
                for (size_t i = 0; i < n; ++i) p.rcs.push_back(rc(type, Dir::from_server));
                break;
            }
            case DISCONNECT:
                p.rc = rc(DISCONNECT, Dir::from_server); p.props = props(DISCONNECT, mask);
                if (p.props.empty()) p.short_form = (uint8_t)rng.below(p.rc == 0 ? 3 : 2);
                break;
            case AUTH:
                p.rc = rc(AUTH, Dir::from_server); p.props = props(AUTH, mask);
                if (p.props.empty() && p.rc == 0) p.short_form = rng.chance(1, 2) ? 2 : 0;
                break;
            default: break;
        }
        return p;
    }
};

}  // namespace ref
