#include "ref/refcodec.hpp"

#include <algorithm>
#include <cstdio>
#include <map>

namespace ref {

namespace {
constexpr uint32_t B(uint8_t t) { return 1u << t; }
const uint32_t ALL_ACKS = B(PUBACK) | B(PUBREC) | B(PUBREL) | B(PUBCOMP) | B(SUBACK) | B(UNSUBACK);
}  // namespace

const char* type_name(uint8_t t) {
    static const char* n[] = {"RESERVED0", "CONNECT", "CONNACK", "PUBLISH", "PUBACK", "PUBREC", "PUBREL", "PUBCOMP",
                              "SUBSCRIBE", "SUBACK", "UNSUBSCRIBE", "UNSUBACK", "PINGREQ", "PINGRESP", "DISCONNECT", "AUTH"};
    return t < 16 ? n[t] : "?";
}

const std::vector<PropInfo>& all_props() {
    static const std::vector<PropInfo> t = {
        {0x01, "payload_format_indicator", VT::byte, B(PUBLISH) | B(WILL), false},
        {0x02, "message_expiry_interval", VT::u32, B(PUBLISH) | B(WILL), false},
        {0x03, "content_type", VT::utf8, B(PUBLISH) | B(WILL), false},
        {0x08, "response_topic", VT::utf8, B(PUBLISH) | B(WILL), false},
        {0x09, "correlation_data", VT::binary, B(PUBLISH) | B(WILL), false},
        {0x0B, "subscription_identifier", VT::varint, B(PUBLISH) | B(SUBSCRIBE), true},
        {0x11, "session_expiry_interval", VT::u32, B(CONNECT) | B(CONNACK) | B(DISCONNECT), false},
        {0x12, "assigned_client_identifier", VT::utf8, B(CONNACK), false},
        {0x13, "server_keep_alive", VT::u16, B(CONNACK), false},
        {0x15, "authentication_method", VT::utf8, B(CONNECT) | B(CONNACK) | B(AUTH), false},
        {0x16, "authentication_data", VT::binary, B(CONNECT) | B(CONNACK) | B(AUTH), false},
        {0x17, "request_problem_information", VT::byte, B(CONNECT), false},
        {0x18, "will_delay_interval", VT::u32, B(WILL), false},
        {0x19, "request_response_information", VT::byte, B(CONNECT), false},
        {0x1A, "response_information", VT::utf8, B(CONNACK), false},
        {0x1C, "server_reference", VT::utf8, B(CONNACK) | B(DISCONNECT), false},
        {0x1F, "reason_string", VT::utf8, B(CONNACK) | ALL_ACKS | B(DISCONNECT) | B(AUTH), false},
        {0x21, "receive_maximum", VT::u16, B(CONNECT) | B(CONNACK), false},
        {0x22, "topic_alias_maximum", VT::u16, B(CONNECT) | B(CONNACK), false},
        {0x23, "topic_alias", VT::u16, B(PUBLISH), false},
        {0x24, "maximum_qos", VT::byte, B(CONNACK), false},
        {0x25, "retain_available", VT::byte, B(CONNACK), false},
        {0x26, "user_property", VT::pair,
         B(CONNECT) | B(CONNACK) | B(PUBLISH) | B(WILL) | ALL_ACKS | B(SUBSCRIBE) | B(UNSUBSCRIBE) | B(DISCONNECT) | B(AUTH), true},
        {0x27, "maximum_packet_size", VT::u32, B(CONNECT) | B(CONNACK), false},
        {0x28, "wildcard_subscription_available", VT::byte, B(CONNACK), false},
        {0x29, "subscription_identifier_available", VT::byte, B(CONNACK), false},
        {0x2A, "shared_subscription_available", VT::byte, B(CONNACK), false},
    };
    return t;
}

const PropInfo* prop_info(uint8_t id) {
    for (auto& p : all_props()) if (p.id == id) return &p;
    return nullptr;
}

static std::string brief(const std::string& s, size_t max = 40) {
    std::string o;
    for (size_t i = 0; i < s.size() && i < max; ++i) {
        unsigned char c = (unsigned char)s[i];
        if (c >= 0x20 && c < 0x7f && c != '"' && c != '\\') o += (char)c;
        else { char b[8]; snprintf(b, sizeof b, "\\x%02x", c); o += b; }
    }
    if (s.size() > max) o += "..(" + std::to_string(s.size()) + ")";
    return o;
}

std::string props_str(const Props& ps) {
    std::string o = "{";
    for (size_t i = 0; i < ps.size(); ++i) {
        auto* pi = prop_info(ps[i].id);
        if (i) o += ", ";
        char b[16]; snprintf(b, sizeof b, "0x%02x", ps[i].id);
        o += pi ? pi->name : b;
        o += "=";
        VT vt = pi ? pi->vt : VT::binary;
        if (vt == VT::utf8 || vt == VT::binary) o += "\"" + brief(ps[i].s1) + "\"";
        else if (vt == VT::pair) o += "(\"" + brief(ps[i].s1) + "\",\"" + brief(ps[i].s2) + "\")";
        else o += std::to_string(ps[i].num);
    }
    return o + "}";
}

Props props_sorted(Props p) {
    std::stable_sort(p.begin(), p.end(), [](const Prop& a, const Prop& b) { return a.id < b.id; });
    return p;
}

bool props_equal(const Props& a, const Props& b) { return props_sorted(a) == props_sorted(b); }

std::string Packet::str() const {
    std::string o = type_name(type);
    char b[64];
    switch (type) {
        case CONNECT:
            o += " id=\"" + brief(client_id) + "\" ka=" + std::to_string(keep_alive) + " clean=" + (clean_start ? "1" : "0");
            if (has_user) o += " user=\"" + brief(user) + "\"";
            if (has_pass) o += " pass=\"" + brief(pass) + "\"";
            if (has_will) o += " will(" + brief(will_topic) + ",q" + std::to_string(will_qos) + (will_retain ? ",r" : "") + "," + props_str(will_props) + ")";
            o += " " + props_str(props);
            break;
        case CONNACK:
            snprintf(b, sizeof b, " sp=%d rc=0x%02x ", session_present, rc); o += b; o += props_str(props);
            break;
        case PUBLISH:
            snprintf(b, sizeof b, " q%d%s%s pid=%u", qos, dup ? " dup" : "", retain ? " ret" : "", pid); o += b;
            o += " topic=\"" + brief(topic) + "\" payload=\"" + brief(payload, 24) + "\" " + props_str(props);
            break;
        case PUBACK: case PUBREC: case PUBREL: case PUBCOMP:
            snprintf(b, sizeof b, " pid=%u rc=0x%02x form=%d ", pid, rc, short_form); o += b; o += props_str(props);
            break;
        case SUBSCRIBE:
            snprintf(b, sizeof b, " pid=%u [", pid); o += b;
            for (auto& s : subs) { snprintf(b, sizeof b, ":0x%02x ", s.second); o += brief(s.first) + b; }
            o += "] " + props_str(props);
            break;
        case UNSUBSCRIBE:
            snprintf(b, sizeof b, " pid=%u [", pid); o += b;
            for (auto& s : unsubs) o += brief(s) + " ";
            o += "] " + props_str(props);
            break;
        case SUBACK: case UNSUBACK:
            snprintf(b, sizeof b, " pid=%u rcs=[", pid); o += b;
            for (size_t i = 0; i < rcs.size() && i < 12; ++i) { snprintf(b, sizeof b, "%02x ", rcs[i]); o += b; }
            if (rcs.size() > 12) o += "..(" + std::to_string(rcs.size()) + ")";
            o += "] " + props_str(props);
            break;
        case DISCONNECT: case AUTH:
            snprintf(b, sizeof b, " rc=0x%02x form=%d ", rc, short_form); o += b; o += props_str(props);
            break;
        default: break;
    }
    return o;
}

// ---------------------------------------------------------------------------------------- encode
size_t varint_size(uint32_t v) { return v < 128 ? 1 : v < 16384 ? 2 : v < 2097152 ? 3 : 4; }
void put_varint(std::string& s, uint32_t v) {
    do {
        uint8_t b = v & 0x7f; v >>= 7;
        if (v) b |= 0x80;
        s.push_back((char)b);
    } while (v);
}
void put_u16(std::string& s, uint16_t v) { s.push_back(char(v >> 8)); s.push_back(char(v & 0xff)); }
void put_u32(std::string& s, uint32_t v) { put_u16(s, uint16_t(v >> 16)); put_u16(s, uint16_t(v & 0xffff)); }
void put_str(std::string& s, std::string_view v) {
    size_t n = std::min<size_t>(v.size(), 65535);
    put_u16(s, uint16_t(n)); s.append(v.data(), n);
}

std::string encode_props(const Props& props) {
    std::string o;
    for (auto& p : props) {
        o.push_back((char)p.id);
        auto* pi = prop_info(p.id);
        VT vt = pi ? pi->vt : VT::binary;
        switch (vt) {
            case VT::byte: o.push_back((char)p.num); break;
            case VT::u16: put_u16(o, (uint16_t)p.num); break;
            case VT::u32: put_u32(o, (uint32_t)p.num); break;
            case VT::varint: put_varint(o, (uint32_t)p.num); break;
            case VT::utf8: case VT::binary: put_str(o, p.s1); break;
            case VT::pair: put_str(o, p.s1); put_str(o, p.s2); break;
        }
    }
    return o;
}

static void put_props(std::string& s, const Props& props) {
    std::string b = encode_props(props);
    put_varint(s, (uint32_t)b.size());
    s += b;
}

std::string frame(uint8_t control_byte, const std::string& body) {
    std::string o;
    o.push_back((char)control_byte);
    put_varint(o, (uint32_t)body.size());
    o += body;
    return o;
}

std::string encode(const Packet& p) {
    std::string b;
    uint8_t flags = 0;
    switch (p.type) {
        case CONNECT: {
            put_str(b, p.proto_name);
            b.push_back((char)p.proto_ver);
            uint8_t cf = (p.has_user ? 0x80 : 0) | (p.has_pass ? 0x40 : 0) | (p.has_will && p.will_retain ? 0x20 : 0) |
                         (p.has_will ? (p.will_qos & 3) << 3 : 0) | (p.has_will ? 0x04 : 0) | (p.clean_start ? 0x02 : 0);
            b.push_back((char)cf);
            put_u16(b, p.keep_alive);
            put_props(b, p.props);
            put_str(b, p.client_id);
            if (p.has_will) { put_props(b, p.will_props); put_str(b, p.will_topic); put_str(b, p.will_payload); }
            if (p.has_user) put_str(b, p.user);
            if (p.has_pass) put_str(b, p.pass);
            break;
        }
        case CONNACK:
            b.push_back(p.session_present ? 1 : 0);
            b.push_back((char)p.rc);
            put_props(b, p.props);
            break;
        case PUBLISH:
            flags = (p.dup ? 8 : 0) | ((p.qos & 3) << 1) | (p.retain ? 1 : 0);
            put_str(b, p.topic);
            if (p.qos) put_u16(b, p.pid);
            put_props(b, p.props);
            b += p.payload;
            break;
        case PUBACK: case PUBREC: case PUBREL: case PUBCOMP:
            if (p.type == PUBREL) flags = 2;
            put_u16(b, p.pid);
            if (p.short_form == 2 && p.rc == 0 && p.props.empty()) break;
            b.push_back((char)p.rc);
            if (p.short_form == 1 && p.props.empty()) break;
            put_props(b, p.props);
            break;
        case SUBSCRIBE:
            flags = 2;
            put_u16(b, p.pid);
            put_props(b, p.props);
            for (auto& s : p.subs) { put_str(b, s.first); b.push_back((char)s.second); }
            break;
        case UNSUBSCRIBE:
            flags = 2;
            put_u16(b, p.pid);
            put_props(b, p.props);
            for (auto& s : p.unsubs) put_str(b, s);
            break;
        case SUBACK: case UNSUBACK:
            put_u16(b, p.pid);
            put_props(b, p.props);
            for (auto r : p.rcs) b.push_back((char)r);
            break;
        case PINGREQ: case PINGRESP: break;
        case DISCONNECT:
            if (p.short_form == 2 && p.rc == 0 && p.props.empty()) break;
            b.push_back((char)p.rc);
            if (p.short_form == 1 && p.props.empty()) break;
            put_props(b, p.props);
            break;
        case AUTH:
            if (p.short_form == 2 && p.rc == 0 && p.props.empty()) break;
            b.push_back((char)p.rc);
            put_props(b, p.props);
            break;
        default: break;
    }
    return frame(uint8_t((p.type << 4) | flags), b);
}

// ---------------------------------------------------------------------------------------- UTF-8
Utf8 utf8_class(std::string_view s) {
    bool nul = false, disc = false;
    size_t i = 0, n = s.size();
    auto u = [&](size_t k) { return (unsigned char)s[k]; };
    while (i < n) {
        uint32_t cp; unsigned c = u(i);
        if (c < 0x80) { cp = c; i += 1; }
        else if (c >= 0xC2 && c <= 0xDF) {
            if (i + 1 >= n || (u(i + 1) & 0xC0) != 0x80) return Utf8::ill_formed;
            cp = ((c & 0x1F) << 6) | (u(i + 1) & 0x3F); i += 2;
        } else if (c >= 0xE0 && c <= 0xEF) {
            if (i + 2 >= n) return Utf8::ill_formed;
            unsigned c1 = u(i + 1), c2 = u(i + 2);
            unsigned lo = c == 0xE0 ? 0xA0 : 0x80, hi = c == 0xED ? 0x9F : 0xBF;   // Unicode table 3-7
            if (c1 < lo || c1 > hi || (c2 & 0xC0) != 0x80) return Utf8::ill_formed;
            cp = ((c & 0x0F) << 12) | ((c1 & 0x3F) << 6) | (c2 & 0x3F); i += 3;
        } else if (c >= 0xF0 && c <= 0xF4) {
            if (i + 3 >= n) return Utf8::ill_formed;
            unsigned c1 = u(i + 1), c2 = u(i + 2), c3 = u(i + 3);
            unsigned lo = c == 0xF0 ? 0x90 : 0x80, hi = c == 0xF4 ? 0x8F : 0xBF;
            if (c1 < lo || c1 > hi || (c2 & 0xC0) != 0x80 || (c3 & 0xC0) != 0x80) return Utf8::ill_formed;
            cp = ((c & 0x07) << 18) | ((c1 & 0x3F) << 12) | ((c2 & 0x3F) << 6) | (c3 & 0x3F); i += 4;
        } else return Utf8::ill_formed;
        if (cp == 0) nul = true;
        else if (cp <= 0x1F || (cp >= 0x7F && cp <= 0x9F) || (cp >= 0xFDD0 && cp <= 0xFDEF) || (cp & 0xFFFE) == 0xFFFE) disc = true;
    }
    if (nul) return Utf8::has_nul;
    return disc ? Utf8::discouraged : Utf8::clean;
}

bool topic_name_ok(std::string_view s) {
    if (s.empty() || s.size() > 65535) return false;
    if (utf8_class(s) != Utf8::clean) return false;
    return s.find_first_of("+#") == std::string_view::npos;
}

bool filter_has_wildcard(std::string_view s) { return s.find_first_of("+#") != std::string_view::npos; }

bool topic_filter_ok(std::string_view s) {
    if (s.empty() || s.size() > 65535) return false;
    if (utf8_class(s) != Utf8::clean) return false;
    size_t start = 0;
    while (true) {
        size_t slash = s.find('/', start);
        std::string_view level = s.substr(start, slash == std::string_view::npos ? std::string_view::npos : slash - start);
        bool last = slash == std::string_view::npos;
        if (level.find('#') != std::string_view::npos && !(level == "#" && last)) return false;
        if (level.find('+') != std::string_view::npos && level != "+") return false;
        if (last) break;
        start = slash + 1;
    }
    return true;
}

bool shared_filter_ok(std::string_view s) {
    if (s.size() > 65535) return false;
    if (s.substr(0, 7) != "$share/") return false;
    s.remove_prefix(7);
    size_t slash = s.find('/');
    if (slash == std::string_view::npos) return false;
    std::string_view name = s.substr(0, slash), filter = s.substr(slash + 1);
    if (name.empty() || name.find_first_of("+#") != std::string_view::npos || utf8_class(name) != Utf8::clean) return false;
    return topic_filter_ok(filter);
}

// ---------------------------------------------------------------------------------------- reason codes
namespace {
struct RcTab { std::vector<uint8_t> listed, server, client; };
const std::map<uint8_t, RcTab>& rc_tabs() {
    static const std::map<uint8_t, RcTab> t = [] {
        std::map<uint8_t, RcTab> m;
        std::vector<uint8_t> pub = {0x00, 0x10, 0x80, 0x83, 0x87, 0x90, 0x91, 0x97, 0x99};
        std::vector<uint8_t> rel = {0x00, 0x92};
        m[CONNACK] = {{0x00,0x80,0x81,0x82,0x83,0x84,0x85,0x86,0x87,0x88,0x89,0x8A,0x8C,0x90,0x95,0x97,0x99,0x9A,0x9B,0x9C,0x9D,0x9F}, {}, {}};
        m[CONNACK].server = m[CONNACK].listed;
        m[PUBACK] = {pub, pub, pub}; m[PUBREC] = {pub, pub, pub};
        m[PUBREL] = {rel, rel, rel}; m[PUBCOMP] = {rel, rel, rel};
        m[SUBACK] = {{0x00,0x01,0x02,0x80,0x83,0x87,0x8F,0x91,0x97,0x9E,0xA1,0xA2}, {}, {}}; m[SUBACK].server = m[SUBACK].listed;
        m[UNSUBACK] = {{0x00,0x11,0x80,0x83,0x87,0x8F,0x91}, {}, {}}; m[UNSUBACK].server = m[UNSUBACK].listed;
        m[AUTH] = {{0x00,0x18,0x19}, {0x00,0x18}, {0x18,0x19}};
        m[DISCONNECT] = {
            {0x00,0x04,0x80,0x81,0x82,0x83,0x87,0x89,0x8B,0x8C,0x8D,0x8E,0x8F,0x90,0x93,0x94,0x95,0x96,0x97,0x98,0x99,0x9A,0x9B,0x9C,0x9D,0x9E,0x9F,0xA0,0xA1,0xA2},
            {0x00,0x80,0x81,0x82,0x83,0x87,0x89,0x8B,0x8D,0x8E,0x8F,0x90,0x93,0x94,0x95,0x96,0x97,0x98,0x99,0x9A,0x9B,0x9C,0x9D,0x9E,0x9F,0xA0,0xA1,0xA2},
            {0x00,0x04,0x80,0x81,0x82,0x83,0x90,0x93,0x94,0x95,0x96,0x97,0x98,0x99}};
        return m;
    }();
    return t;
}
}  // namespace

bool rc_listed(uint8_t ptype, uint8_t code) {
    auto it = rc_tabs().find(ptype);
    if (it == rc_tabs().end()) return false;
    return std::find(it->second.listed.begin(), it->second.listed.end(), code) != it->second.listed.end();
}
const std::vector<uint8_t>& rc_list(uint8_t ptype, Dir dir) {
    static const std::vector<uint8_t> none;
    auto it = rc_tabs().find(ptype);
    if (it == rc_tabs().end()) return none;
    return dir == Dir::from_server ? it->second.server : it->second.client;
}
bool rc_sendable(uint8_t ptype, uint8_t code, Dir dir) {
    auto& l = rc_list(ptype, dir);
    return std::find(l.begin(), l.end(), code) != l.end();
}

// ---------------------------------------------------------------------------------------- decode
namespace {
std::vector<LenField>* g_trace = nullptr;
const uint8_t* g_pkt_start = nullptr;
}
void set_len_trace(std::vector<LenField>* sink) { g_trace = sink; }

namespace {

struct Rd {
    const uint8_t* p; size_t n; size_t i = 0; bool bad = false; std::string err;
    Rd(const uint8_t* p, size_t n) : p(p), n(n) {}
    void trace(size_t at, size_t width, bool varint, uint32_t v, const char* what) {
        if (g_trace && g_pkt_start) g_trace->push_back({size_t(p + at - g_pkt_start), width, varint, v, what});
    }
    size_t left() const { return n - i; }
    void fail(const std::string& e) { if (!bad) { bad = true; err = e; } }
    uint8_t u8(const char* what) { if (left() < 1) { fail(std::string("truncated ") + what); return 0; } return p[i++]; }
    uint16_t u16(const char* what) { if (left() < 2) { fail(std::string("truncated ") + what); i = n; return 0; } uint16_t v = (p[i] << 8) | p[i + 1]; i += 2; return v; }
    uint32_t u32(const char* what) { if (left() < 4) { fail(std::string("truncated ") + what); i = n; return 0; } uint32_t v = (uint32_t(p[i]) << 24) | (p[i + 1] << 16) | (p[i + 2] << 8) | p[i + 3]; i += 4; return v; }
    uint32_t varint(const char* what) {
        uint32_t v = 0; int shift = 0; size_t at = i;
        for (int k = 0; k < 4; ++k) {
            if (left() < 1) { fail(std::string("truncated ") + what); return 0; }
            uint8_t b = p[i++];
            v |= uint32_t(b & 0x7f) << shift; shift += 7;
            if (!(b & 0x80)) {
                if (k > 0 && (b & 0x7f) == 0) fail(std::string("non-minimal varint in ") + what);
                trace(at, i - at, true, v, what);
                return v;
            }
        }
        fail(std::string("varint longer than 4 bytes in ") + what);
        return 0;
    }
    std::string bin(const char* what) {
        size_t at = i;
        uint16_t len = u16(what);
        if (bad) return {};
        trace(at, 2, false, len, what);
        if (left() < len) { fail(std::string("truncated ") + what); i = n; return {}; }
        std::string s(reinterpret_cast<const char*>(p + i), len); i += len; return s;
    }
    std::string str(const char* what) {
        std::string s = bin(what);
        if (!bad && !utf8_wire_ok(s)) fail(std::string("ill-formed UTF-8 / U+0000 in ") + what);
        return s;
    }
};

void read_props(Rd& r, uint8_t ptype, Props& out, std::vector<std::string>& issues) {
    uint32_t len = r.varint("property length");
    if (r.bad) return;
    if (r.left() < len) { r.fail("property length exceeds packet"); return; }
    Rd pr(r.p + r.i, len);
    uint32_t seen[8] = {0};
    while (pr.left() > 0 && !pr.bad) {
        uint8_t id = pr.u8("property id");
        auto* pi = prop_info(id);
        if (!pi) { pr.fail("unknown property id " + std::to_string(id)); break; }
        if (!(pi->allowed & (1u << ptype))) { pr.fail(std::string("property ") + pi->name + " not allowed in " + (ptype == WILL ? "Will" : type_name(ptype))); break; }
        if (!pi->multi || (id == 0x0B && ptype != PUBLISH)) {
            if (seen[id >> 5] & (1u << (id & 31))) { pr.fail(std::string("duplicate property ") + pi->name); break; }
        }
        seen[id >> 5] |= 1u << (id & 31);
        Prop p; p.id = id;
        switch (pi->vt) {
            case VT::byte: p.num = pr.u8(pi->name); break;
            case VT::u16: p.num = pr.u16(pi->name); break;
            case VT::u32: p.num = pr.u32(pi->name); break;
            case VT::varint: p.num = pr.varint(pi->name); break;
            case VT::utf8: p.s1 = pr.str(pi->name); break;
            case VT::binary: p.s1 = pr.bin(pi->name); break;
            case VT::pair: p.s1 = pr.str(pi->name); p.s2 = pr.str(pi->name); break;
        }
        if (pr.bad) break;
        // value constraints (protocol errors)
        switch (id) {
            case 0x01: case 0x17: case 0x19: case 0x24: case 0x25: case 0x28: case 0x29: case 0x2A:
                if (p.num > 1) issues.push_back(std::string(pi->name) + " must be 0 or 1"); break;
            case 0x21: case 0x27: case 0x23:
                if (p.num == 0) issues.push_back(std::string(pi->name) + " must not be 0"); break;
            case 0x0B:
                if (p.num == 0) issues.push_back("subscription_identifier must not be 0"); break;
            default: break;
        }
        out.push_back(std::move(p));
    }
    if (pr.bad) { r.fail(pr.err); return; }
    r.i += len;
}

}  // namespace

Decoded decode(const uint8_t* p, size_t n, Dir dir) {
    Decoded d;
    if (n < 2) return d;
    uint8_t cb = p[0];
    // remaining length
    uint32_t rem = 0; int shift = 0; size_t i = 1; bool done = false;
    for (int k = 0; k < 4; ++k) {
        if (i >= n) return d;   // incomplete
        uint8_t b = p[i++];
        rem |= uint32_t(b & 0x7f) << shift; shift += 7;
        if (!(b & 0x80)) {
            if (k > 0 && (b & 0x7f) == 0) { d.status = Status::malformed; d.error = "non-minimal remaining length"; return d; }
            done = true; break;
        }
    }
    if (!done) { d.status = Status::malformed; d.error = "remaining length longer than 4 bytes"; return d; }
    d.framed = true;
    d.consumed = i + rem;
    g_pkt_start = p;
    if (g_trace) g_trace->push_back({1, i - 1, true, rem, "remaining length"});
    uint8_t type = cb >> 4, flags = cb & 15;
    Packet& k = d.pkt;
    k.type = type;
    auto bad = [&](const std::string& e) { d.status = Status::malformed; d.error = e; return d; };
    if (type == 0) return bad("reserved packet type 0");
    uint8_t want = (type == PUBREL || type == SUBSCRIBE || type == UNSUBSCRIBE) ? 2 : 0;
    if (type != PUBLISH && flags != want) return bad(std::string("bad fixed header flags for ") + type_name(type));
    if (n - i < rem) { d.status = Status::incomplete; return d; }
    Rd r(p + i, rem);
    switch (type) {
        case CONNECT: {
            k.proto_name = r.str("protocol name");
            k.proto_ver = r.u8("protocol version");
            uint8_t cf = r.u8("connect flags");
            k.keep_alive = r.u16("keep alive");
            if (r.bad) break;
            if (k.proto_name != "MQTT") { r.fail("protocol name is not MQTT"); break; }
            if (k.proto_ver != 5) { r.fail("protocol version is not 5"); break; }
            if (cf & 1) { r.fail("reserved connect flag set"); break; }
            k.clean_start = cf & 2; k.has_will = cf & 4; k.will_qos = (cf >> 3) & 3; k.will_retain = cf & 0x20;
            k.has_pass = cf & 0x40; k.has_user = cf & 0x80;
            if (k.will_qos == 3) { r.fail("will qos 3"); break; }
            if (!k.has_will && (k.will_qos || k.will_retain)) { r.fail("will qos/retain without will flag"); break; }
            read_props(r, CONNECT, k.props, d.protocol_issues);
            if (r.bad) break;
            k.client_id = r.str("client id");
            if (k.has_will) {
                read_props(r, WILL, k.will_props, d.protocol_issues);
                if (r.bad) break;
                k.will_topic = r.str("will topic");
                k.will_payload = r.bin("will payload");
            }
            if (k.has_user) k.user = r.str("user name");
            if (k.has_pass) k.pass = r.bin("password");
            break;
        }
        case CONNACK: {
            uint8_t f = r.u8("connack flags");
            k.rc = r.u8("reason code");
            if (r.bad) break;
            if (f & 0xFE) { r.fail("reserved connack flags set"); break; }
            k.session_present = f & 1;
            read_props(r, CONNACK, k.props, d.protocol_issues);
            break;
        }
        case PUBLISH: {
            k.dup = flags & 8; k.qos = (flags >> 1) & 3; k.retain = flags & 1;
            if (k.qos == 3) { r.fail("PUBLISH with QoS 3"); break; }
            k.topic = r.str("topic name");
            if (k.qos) {
                k.pid = r.u16("packet id");
                if (!r.bad && k.pid == 0) { r.fail("packet id 0"); break; }
            }
            if (r.bad) break;
            if (k.topic.find_first_of("+#") != std::string::npos) { r.fail("wildcard in topic name"); break; }
            read_props(r, PUBLISH, k.props, d.protocol_issues);
            if (r.bad) break;
            k.payload.assign(reinterpret_cast<const char*>(r.p + r.i), r.left());
            r.i = r.n;
            if (k.qos == 0 && k.dup) d.protocol_issues.push_back("DUP set on QoS 0 PUBLISH");
            break;
        }
        case PUBACK: case PUBREC: case PUBREL: case PUBCOMP: {
            k.pid = r.u16("packet id");
            if (r.bad) break;
            if (k.pid == 0) { r.fail("packet id 0"); break; }
            if (r.left() == 0) { k.short_form = 2; break; }
            k.rc = r.u8("reason code");
            if (r.left() == 0) { k.short_form = 1; break; }
            read_props(r, type, k.props, d.protocol_issues);
            break;
        }
        case SUBSCRIBE: {
            k.pid = r.u16("packet id");
            if (!r.bad && k.pid == 0) { r.fail("packet id 0"); break; }
            if (r.bad) break;
            read_props(r, SUBSCRIBE, k.props, d.protocol_issues);
            if (r.bad) break;
            if (r.left() == 0) { r.fail("SUBSCRIBE without topic filter"); break; }
            while (r.left() > 0 && !r.bad) {
                std::string f = r.str("topic filter");
                uint8_t o = r.u8("subscription options");
                if (r.bad) break;
                if (o & 0xC0) { r.fail("reserved subscription option bits set"); break; }
                if ((o & 3) == 3) { r.fail("subscription option QoS 3"); break; }
                if (((o >> 4) & 3) == 3) { r.fail("retain handling 3"); break; }
                k.subs.emplace_back(std::move(f), o);
            }
            break;
        }
        case UNSUBSCRIBE: {
            k.pid = r.u16("packet id");
            if (!r.bad && k.pid == 0) { r.fail("packet id 0"); break; }
            if (r.bad) break;
            read_props(r, UNSUBSCRIBE, k.props, d.protocol_issues);
            if (r.bad) break;
            if (r.left() == 0) { r.fail("UNSUBSCRIBE without topic filter"); break; }
            while (r.left() > 0 && !r.bad) k.unsubs.push_back(r.str("topic filter"));
            break;
        }
        case SUBACK: case UNSUBACK: {
            k.pid = r.u16("packet id");
            if (!r.bad && k.pid == 0) { r.fail("packet id 0"); break; }
            if (r.bad) break;
            read_props(r, type, k.props, d.protocol_issues);
            if (r.bad) break;
            if (r.left() == 0) { r.fail("no reason code in SUBACK/UNSUBACK"); break; }
            while (r.left() > 0) k.rcs.push_back(r.u8("reason code"));
            break;
        }
        case PINGREQ: case PINGRESP:
            break;
        case DISCONNECT: {
            if (r.left() == 0) { k.short_form = 2; break; }
            k.rc = r.u8("reason code");
            if (r.left() == 0) { k.short_form = 1; break; }
            read_props(r, DISCONNECT, k.props, d.protocol_issues);
            break;
        }
        case AUTH: {
            if (r.left() == 0) { k.short_form = 2; break; }
            k.rc = r.u8("reason code");
            if (r.left() == 0) { r.fail("AUTH with reason code but no property length"); break; }
            read_props(r, AUTH, k.props, d.protocol_issues);
            break;
        }
        default: break;
    }
    if (!r.bad && r.left() != 0) r.fail("trailing bytes inside packet (remaining length larger than contents)");
    if (r.bad) return bad(r.err);
    // reason-code admission
    auto chk = [&](uint8_t code) {
        if (!rc_listed(type, code)) { char b[80]; snprintf(b, sizeof b, "reason code 0x%02x not listed for %s", code, type_name(type)); d.protocol_issues.push_back(b); }
        else if (!rc_sendable(type, code, dir)) { char b[80]; snprintf(b, sizeof b, "reason code 0x%02x not sendable by this side in %s", code, type_name(type)); d.protocol_issues.push_back(b); }
    };
    switch (type) {
        case CONNACK: case PUBACK: case PUBREC: case PUBREL: case PUBCOMP: case DISCONNECT: case AUTH: chk(k.rc); break;
        case SUBACK: case UNSUBACK: for (auto c : k.rcs) chk(c); break;
        default: break;
    }
    // direction
    bool client_only = type == CONNECT || type == SUBSCRIBE || type == UNSUBSCRIBE || type == PINGREQ;
    bool server_only = type == CONNACK || type == SUBACK || type == UNSUBACK || type == PINGRESP;
    if ((dir == Dir::from_server && client_only) || (dir == Dir::from_client && server_only))
        d.protocol_issues.push_back(std::string(type_name(type)) + " sent in the wrong direction");
    d.status = Status::ok;
    return d;
}

}  // namespace ref
