// Independent MQTT 5.0 reference codec, written from the OASIS specification.
// Includes nothing from boost/mqtt5. It is the simulated broker's parser/generator and the oracle
// for the codec properties (C17, C18, C19, C20) and part of the validation recogniser (C16).
#pragma once
#include <cstdint>
#include <string>
#include <string_view>
#include <utility>
#include <vector>

namespace ref {

enum PType : uint8_t {
    CONNECT = 1, CONNACK, PUBLISH, PUBACK, PUBREC, PUBREL, PUBCOMP, SUBSCRIBE, SUBACK,
    UNSUBSCRIBE, UNSUBACK, PINGREQ, PINGRESP, DISCONNECT, AUTH
};
const char* type_name(uint8_t t);

enum class VT : uint8_t { byte, u16, u32, varint, utf8, binary, pair };

// pseudo packet type for the Will property set of CONNECT
constexpr uint8_t WILL = 0;

struct PropInfo {
    uint8_t id;
    const char* name;
    VT vt;
    uint32_t allowed;   // bit (1 << packet type); bit 0 = Will properties
    bool multi;         // may appear more than once
};
const PropInfo* prop_info(uint8_t id);
const std::vector<PropInfo>& all_props();

struct Prop {
    uint8_t id = 0;
    uint64_t num = 0;
    std::string s1, s2;
    bool operator==(const Prop& o) const { return id == o.id && num == o.num && s1 == o.s1 && s2 == o.s2; }
    bool operator!=(const Prop& o) const { return !(*this == o); }
    bool operator<(const Prop& o) const {
        if (id != o.id) return id < o.id;
        if (num != o.num) return num < o.num;
        if (s1 != o.s1) return s1 < o.s1;
        return s2 < o.s2;
    }
};
using Props = std::vector<Prop>;
std::string props_str(const Props&);
// order-insensitive comparison for single-valued properties, order-sensitive among equal ids
bool props_equal(const Props& a, const Props& b);
Props props_sorted(Props p);   // stable sort by id

struct Packet {
    uint8_t type = 0;
    // PUBLISH
    bool dup = false, retain = false;
    uint8_t qos = 0;
    std::string topic, payload;
    // packet identifier (PUBLISH qos>0, acks, SUBSCRIBE, ...)
    uint16_t pid = 0;
    // reason code / properties and the wire form used (see encode)
    uint8_t rc = 0;
    Props props;
    // 0 = full form; 1 = reason code present, property length omitted; 2 = both omitted
    uint8_t short_form = 0;
    // CONNECT
    std::string proto_name = "MQTT";
    uint8_t proto_ver = 5;
    bool clean_start = false;
    uint16_t keep_alive = 0;
    std::string client_id;
    bool has_will = false, will_retain = false;
    uint8_t will_qos = 0;
    Props will_props;
    std::string will_topic, will_payload;
    bool has_user = false, has_pass = false;
    std::string user, pass;
    // CONNACK
    bool session_present = false;
    // SUBSCRIBE (filter, options byte), UNSUBSCRIBE, SUBACK/UNSUBACK
    std::vector<std::pair<std::string, uint8_t>> subs;
    std::vector<std::string> unsubs;
    std::vector<uint8_t> rcs;

    std::string str() const;   // human readable, bounded
};

enum class Status { ok, incomplete, malformed };
enum class Dir { from_client, from_server };

struct Decoded {
    Status status = Status::incomplete;
    size_t consumed = 0;        // bytes of the whole packet (valid for ok and, when the frame could be cut, malformed)
    bool framed = false;        // fixed header was parsable: consumed is the frame size
    Packet pkt;
    std::string error;          // first structural problem (malformed)
    std::vector<std::string> protocol_issues;  // well-formed but not allowed (reason code not admissible, ...)
    bool strict_ok() const { return status == Status::ok && protocol_issues.empty(); }
};

// Length-bearing fields of a packet, recorded while decoding when a trace sink is installed.
struct LenField {
    size_t offset;      // from the start of the packet
    size_t width;       // bytes occupied by the field itself
    bool varint;        // variable byte integer (else big-endian u16)
    uint32_t value;
    const char* what;
};
// installs (or, with nullptr, removes) a sink that decode() fills; not thread safe by design (one scenario per process)
void set_len_trace(std::vector<LenField>* sink);

// Decodes one packet from the front of [p, p+n).
Decoded decode(const uint8_t* p, size_t n, Dir dir);
inline Decoded decode(std::string_view s, Dir dir) { return decode(reinterpret_cast<const uint8_t*>(s.data()), s.size(), dir); }

// Encodes; never fails for in-range values (strings > 65535 are truncated to keep the frame well formed).
std::string encode(const Packet& p);

// building blocks (used by generators of hostile packets)
void put_varint(std::string& s, uint32_t v);
size_t varint_size(uint32_t v);
void put_u16(std::string& s, uint16_t v);
void put_u32(std::string& s, uint32_t v);
void put_str(std::string& s, std::string_view v);
std::string encode_props(const Props& props);   // without the length prefix
// frames a body: control byte + remaining length + body
std::string frame(uint8_t control_byte, const std::string& body);

// reason code admission: listed for packet type / sendable by that direction
bool rc_listed(uint8_t ptype, uint8_t code);
bool rc_sendable(uint8_t ptype, uint8_t code, Dir dir);
const std::vector<uint8_t>& rc_list(uint8_t ptype, Dir dir);

// UTF-8 (MQTT 5 section 1.5.4)
enum class Utf8 { ill_formed, has_nul, discouraged, clean };   // discouraged = control characters / non-characters
Utf8 utf8_class(std::string_view s);
inline bool utf8_wire_ok(std::string_view s) { auto c = utf8_class(s); return c == Utf8::clean || c == Utf8::discouraged; }

// topic rules (section 4.7)
bool topic_name_ok(std::string_view s);                 // non-empty, no wildcards, clean UTF-8, <= 65535
bool topic_filter_ok(std::string_view s);               // wildcard placement, non-empty, clean UTF-8 (no $share handling)
bool shared_filter_ok(std::string_view s);              // $share/<name>/<filter>
bool filter_has_wildcard(std::string_view s);

}  // namespace ref
