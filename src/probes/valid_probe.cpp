// C16 (unit level): the library's string/topic validators against the reference recogniser.
#include <boost/mqtt5/detail/topic_validation.hpp>
#include <boost/mqtt5/detail/utf8_mqtt.hpp>

#include <sstream>

#include "common/vutil.hpp"
#include "ref/refcodec.hpp"

namespace d = boost::mqtt5::detail;

namespace {

vu::Result res;
uint64_t per_class[16];

struct Verdicts { bool utf8, name, alias, filter, shared; };

Verdicts lib(std::string_view s) {
    return {
        d::validate_mqtt_utf8(s) == d::validation_result::valid,
        d::validate_topic_name(s) == d::validation_result::valid,
        d::validate_topic_alias_name(s) == d::validation_result::valid,
        d::validate_topic_filter(s) == d::validation_result::valid,
        d::validate_shared_topic_filter(s, true) == d::validation_result::valid,
    };
}

Verdicts model(std::string_view s) {
    bool clean = s.size() <= 65535 && ref::utf8_class(s) == ref::Utf8::clean;
    return {
        clean,
        ref::topic_name_ok(s),
        s.empty() || ref::topic_name_ok(s),
        ref::topic_filter_ok(s),
        ref::shared_filter_ok(s),
    };
}

void check(std::string_view s, const char* family) {
    res.evaluations++;
    Verdicts a = lib(s), b = model(s);
    unsigned cls = (b.utf8 ? 1 : 0) | (b.name ? 2 : 0) | (b.filter ? 4 : 0) | (b.shared ? 8 : 0);
    per_class[cls]++;
    const char* names[] = {"utf8_string", "topic_name", "topic_alias_name", "topic_filter", "shared_topic_filter"};
    bool la[] = {a.utf8, a.name, a.alias, a.filter, a.shared}, lb[] = {b.utf8, b.name, b.alias, b.filter, b.shared};
    for (int i = 0; i < 5; ++i) {
        if (la[i] == lb[i]) continue;
        std::string in(s.substr(0, 64));
        std::string dir = la[i] ? "accepts-ill-formed" : "rejects-well-formed";
        // key: validator + direction + UTF-8 class of the input (so that different kinds of failure stay distinct)
        const char* ucls[] = {"ill_formed_utf8", "has_nul", "control_or_nonchar", "clean_utf8"};
        std::string key = std::string("C16:") + names[i] + ":" + dir + ":" + ucls[int(ref::utf8_class(s))];
        res.violation("C16", key,
                      std::string(names[i]) + " " + dir + " input (" + std::to_string(s.size()) + " bytes) " + vu::hex(in, 24) + " [" + family + "]",
                      std::string("validator: ") + names[i] + "\nlibrary says: " + (la[i] ? "valid" : "invalid") +
                          "\nreference says: " + (lb[i] ? "valid" : "invalid") + "\ninput hex: " + vu::hex(std::string(s), 200) + "\nfamily: " + family);
    }
}

std::string enc_cp(uint32_t cp) {
    std::string o;
    if (cp < 0x80) o += char(cp);
    else if (cp < 0x800) { o += char(0xC0 | (cp >> 6)); o += char(0x80 | (cp & 0x3F)); }
    else if (cp < 0x10000) { o += char(0xE0 | (cp >> 12)); o += char(0x80 | ((cp >> 6) & 0x3F)); o += char(0x80 | (cp & 0x3F)); }
    else { o += char(0xF0 | (cp >> 18)); o += char(0x80 | ((cp >> 12) & 0x3F)); o += char(0x80 | ((cp >> 6) & 0x3F)); o += char(0x80 | (cp & 0x3F)); }
    return o;
}

}  // namespace

int main(int argc, char** argv) {
    vu::Args args(argc, argv);
    int shard, nshards; args.shard(shard, nshards);
    bool thorough = args.str("tier", "quick") == "thorough";
    vu::Rng rng(args.num("seed", 1) * 1000003 + shard);
    uint64_t idx = 0;
    auto mine = [&]() { return int(idx++ % nshards) == shard; };
    static const unsigned char bnd[] = {0x00, 0x01, 0x7F, 0x80, 0x8F, 0x90, 0x9F, 0xA0, 0xBD, 0xBE, 0xBF, 0xC0, 0xFF};

    // (1) every byte string of length <= 2 (quick) / <= 3 (thorough), alone and inside a topic level
    check("", "short");
    {
        int maxlen = thorough ? 3 : 2;
        std::string s;
        for (int len = 1; len <= maxlen; ++len) {
            uint64_t total = 1ull << (8 * len);
            for (uint64_t v = 0; v < total; ++v) {
                if (!mine()) continue;
                s.resize(len);
                for (int k = 0; k < len; ++k) s[k] = char(v >> (8 * (len - 1 - k)));
                check(s, "short");
                {   // distinct by construction; non-trivial = not plain alphanumeric ASCII
                    bool plain = true;
                    for (unsigned char c : s) if (!((c >= '0' && c <= '9') || (c >= 'A' && c <= 'Z') || (c >= 'a' && c <= 'z'))) plain = false;
                    if (!plain) res.distinct_extra++;
                }
                if (len <= 2) { std::string t = "a/" + s + "/b"; check(t, "short-in-level"); }
            }
        }
    }
    // (2) every scalar value's canonical encoding, plus surrogates encoded naively
    for (uint32_t cp = 0; cp <= 0x10FFFF + 2; cp += 1) {
        if (!mine()) continue;
        std::string e = cp <= 0x10FFFF ? enc_cp(cp) : std::string();
        if (cp > 0x10FFFF) { e = enc_cp(0x10FFFF); e[0] = char(0xF4); e[1] = char(0x90 + (cp - 0x110000)); }
        check(e, "codepoint");
        if ((int)e.size() > (thorough ? 3 : 2)) res.distinct_extra++;   // not already part of the short-string family
        if ((cp & 0x3F) == 0 || (cp & 0xFFFF) >= 0xFFF0 || cp < 0x100) { check("t/" + e + "x", "codepoint-in-topic"); check("$share/g" + e + "/t", "codepoint-in-share"); }
    }
    // (3) almost-code-points: every lead byte x every second byte x boundary continuation bytes
    for (int lead = 0xC0; lead <= 0xFF; ++lead)
        for (int b1 = 0; b1 < 256; ++b1) {
            if (!mine()) continue;
            std::string s; s += char(lead); s += char(b1);
            if (lead >= 0xE0)
                for (unsigned char b2 : bnd) {
                    std::string s3 = s; s3 += char(b2);
                    if (lead < 0xF0) check(s3, "near-codepoint-3");
                    else for (unsigned char b3 : bnd) { std::string s4 = s3; s4 += char(b3); check(s4, "near-codepoint-4"); }
                }
        }
    // (4) length boundaries
    for (size_t len : {65533u, 65534u, 65535u, 65536u, 65537u, 70000u}) {
        if (!mine()) continue;
        check(std::string(len, 'a'), "length");
        check("$share/g/" + std::string(len - 9, 'a'), "length-share");
        std::string s(len, 'a'); s[len - 2] = '/'; s[len - 1] = '#'; check(s, "length-wild");
        // multi-byte character straddling the end
        std::string u(len - 2, 'b'); u += "\xC3\xA9"; check(u, "length-utf8");
    }
    // (5) compositions around / + # $share and UTF-8 fragments
    {
        static const std::vector<std::string> frag = {
            "/", "/", "+", "#", "a", "b", "$share", "$share/", "$", "share", "g", "//", "+/", "/+", "/#", "#/", "++", "a+", "+a", "a#",
            "\xC3\xA9", "\xE2\x82\xAC", "\xF0\x9F\x98\x80", "\xC0\xAF", "\xED\xA0\x80", "\xEF\xBF\xBE", "\xEF\xBF\xBF", "\xC3", "\x80", "\xC3\x28",
            std::string(1, '\0'), "\x1F", "\x7F", "\xC2\x80", "\xC2\x9F", "\xC2\xA0", "\xC3\xBE", "\xC3\xBF", "\xEF\xB7\x90", "\xF4\x8F\xBF\xBF", "\xF4\x90\x80\x80", "\xF8\x88\x80\x80",
            "\xF0\x9F\xBF\xBE", " ", "topic", "$SYS"};
        uint64_t n = thorough ? 6000000 : 300000;
        for (uint64_t i = 0; i < n / nshards; ++i) {
            std::string s;
            int parts = (int)rng.range(1, 7);
            if (rng.chance(1, 4)) s = "$share/";
            for (int k = 0; k < parts; ++k) s += rng.pick(frag);
            check(s, "composition");
        }
    }
    for (int c = 0; c < 16; ++c)
        if (per_class[c]) {
            res.hash(vu::mix(0xC16, c));
            res.count("class_" + std::string(c & 1 ? "U" : "u") + (c & 2 ? "N" : "n") + (c & 4 ? "F" : "f") + (c & 8 ? "S" : "s"), per_class[c]);
        }
    res.sample("{\"input_hex\": \"c3 28\", \"reference\": \"ill-formed\", \"library_utf8_valid\": " + std::string(lib("\xC3\x28").utf8 ? "true" : "false") + "}");
    res.sample("{\"input\": \"sport/+/player1/#\", \"reference_filter\": true, \"library_filter_valid\": " + std::string(lib("sport/+/player1/#").filter ? "true" : "false") + "}");
    res.sample("{\"input\": \"$share/g/a/+\", \"reference_shared\": true, \"library_shared_valid\": " + std::string(lib("$share/g/a/+").shared ? "true" : "false") + "}");
    res.write(args.str("out", "/dev/stdout"));
    return res.violations.empty() ? 0 : 1;
}
