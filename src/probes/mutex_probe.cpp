// C11 (unit level): async_mutex on a manually driven io_context against a FIFO model.
#include <boost/mqtt5/detail/async_mutex.hpp>

#include <boost/asio/bind_cancellation_slot.hpp>
#include <boost/asio/cancellation_signal.hpp>
#include <boost/asio/io_context.hpp>

#include <memory>
#include <sstream>

#include "common/vutil.hpp"

namespace asio = boost::asio;
using boost::mqtt5::detail::async_mutex;
using boost::system::error_code;

namespace {

vu::Result res;

enum St { QUEUED, PENDING, HOLDING, RELEASED, CANCELLED, ABORTED_DONE };

struct Waiter {
    St st;
    bool has_slot = false;
    std::unique_ptr<asio::cancellation_signal> sig;
    int completions = 0;
    bool got_success = false;
};

struct Run {
    asio::io_context ioc{1};
    std::unique_ptr<async_mutex> mtx;
    std::vector<std::unique_ptr<Waiter>> w;
    bool locked = false;          // model flag
    bool in_initiation = false;
    std::string trace;
    bool ok = true;
    uint64_t sig_hash = 1469598103934665603ull;

    Run() : mtx(new async_mutex(ioc.get_executor())) {}

    void fail(const std::string& key, const std::string& what) {
        if (!ok) return;
        ok = false;
        res.violation("C11", "C11:mutex:" + key, what, "operation trace:\n" + trace);
    }
    int holders() const { int n = 0; for (auto& x : w) if (x->st == HOLDING) ++n; return n; }

    void on_complete(size_t id, error_code ec) {
        Waiter& x = *w[id];
        trace += "  <done " + std::to_string(id) + (ec ? " aborted>" : " ok>");
        res.count("completions");
        if (in_initiation) fail("inline-completion", "handler of lock #" + std::to_string(id) + " ran inside an initiating call");
        if (++x.completions > 1) { fail("double-completion", "lock #" + std::to_string(id) + " completed twice"); return; }
        if (!ec) {
            if (x.st != PENDING) { fail("grant-out-of-order", "lock #" + std::to_string(id) + " was granted while the model has it in state " + std::to_string(x.st)); return; }
            if (holders() != 0) { fail("two-holders", "lock #" + std::to_string(id) + " granted while another holder exists"); return; }
            x.st = HOLDING; x.got_success = true;
            res.count("grants");
        } else if (ec == asio::error::operation_aborted) {
            if (x.st != CANCELLED) { fail("spurious-abort", "lock #" + std::to_string(id) + " completed with operation_aborted in model state " + std::to_string(x.st)); return; }
            x.st = ABORTED_DONE;
            res.count("aborts");
        } else fail("unexpected-ec", "lock #" + std::to_string(id) + " completed with " + ec.message());
    }

    void op_lock(bool with_slot) {
        size_t id = w.size();
        w.emplace_back(new Waiter);
        Waiter& x = *w.back();
        x.has_slot = with_slot;
        x.st = locked ? QUEUED : PENDING;
        locked = true;
        trace += (with_slot ? " Ls" : " L") + std::to_string(id);
        in_initiation = true;
        auto h = [this, id](error_code ec) { on_complete(id, ec); };
        if (with_slot) {
            x.sig.reset(new asio::cancellation_signal);
            mtx->lock(asio::bind_cancellation_slot(x.sig->slot(), h));
        } else mtx->lock(h);
        in_initiation = false;
    }
    void op_unlock() {
        for (auto& x : w)
            if (x->st == HOLDING) {
                x->st = RELEASED;
                trace += " U";
                bool handed = false;
                for (auto& y : w) if (y->st == QUEUED) { y->st = PENDING; handed = true; break; }
                if (!handed) locked = false;
                in_initiation = true;
                mtx->unlock();
                in_initiation = false;
                res.count("unlocks");
                return;
            }
    }
    void op_signal(bool newest) {
        Waiter* t = nullptr;
        if (newest) { for (auto it = w.rbegin(); it != w.rend(); ++it) if ((*it)->has_slot && (*it)->completions == 0) { t = it->get(); break; } }
        else { for (auto& x : w) if (x->has_slot && x->completions == 0) { t = x.get(); break; } }
        if (!t) return;
        trace += newest ? " Sn" : " So";
        if (t->st == QUEUED) t->st = CANCELLED;   // PENDING/HOLDING: the slot was cleared when the grant was posted
        in_initiation = true;
        t->sig->emit(asio::cancellation_type::total);
        in_initiation = false;
        res.count("signals");
    }
    void op_cancel_all() {
        trace += " C";
        for (auto& x : w) if (x->st == QUEUED) x->st = CANCELLED;
        in_initiation = true;
        mtx->cancel();
        in_initiation = false;
        res.count("cancel_all");
    }
    void op_run(bool all) {
        trace += all ? " R*" : " R1";
        if (all) ioc.poll(); else ioc.poll_one();
        ioc.restart();
    }
    void apply(int op) {
        switch (op) {
            case 0: op_lock(false); break;
            case 1: op_lock(true); break;
            case 2: op_unlock(); break;
            case 3: op_signal(false); break;
            case 4: op_signal(true); break;
            case 5: op_cancel_all(); break;
            case 6: op_run(false); break;
            case 7: op_run(true); break;
        }
        vu::set_case("mutex operation trace:" + trace);
        uint64_t st = locked;
        for (auto& x : w) st = st * 7 + x->st;
        sig_hash = vu::mix(sig_hash, st);
    }
    void finish() {
        op_run(true);
        if (ok && mtx->is_locked() != locked)
            fail("locked-flag", std::string("is_locked() = ") + (mtx->is_locked() ? "true" : "false") + " but the model says " + (locked ? "true" : "false"));
        for (size_t i = 0; ok && i < w.size(); ++i) {
            Waiter& x = *w[i];
            if ((x.st == HOLDING || x.st == RELEASED) && x.completions != 1) fail("missing-completion", "granted lock #" + std::to_string(i) + " has " + std::to_string(x.completions) + " completions");
            if (x.st == PENDING) fail("grant-not-delivered", "lock #" + std::to_string(i) + " should have been granted but its handler never ran");
            if (x.st == CANCELLED) fail("abort-not-delivered", "cancelled lock #" + std::to_string(i) + " was never told");
            if (x.st == QUEUED && x.completions != 0) fail("queued-completed", "queued lock #" + std::to_string(i) + " completed without grant or cancellation");
        }
        // destroying the mutex cancels whoever still waits: everybody gets exactly one completion
        for (auto& x : w) if (x->st == QUEUED) x->st = CANCELLED;
        trace += " ~";
        mtx.reset();
        ioc.poll(); ioc.restart();
        for (size_t i = 0; ok && i < w.size(); ++i)
            if (w[i]->completions != 1) fail("completion-count-at-destruction", "lock #" + std::to_string(i) + " has " + std::to_string(w[i]->completions) + " completions after the mutex was destroyed");
        res.evaluations++;
        res.hash(sig_hash);
    }
};

}  // namespace

int main(int argc, char** argv) {
    vu::Args args(argc, argv);
    int shard, nshards; args.shard(shard, nshards);
    bool thorough = args.str("tier", "quick") == "thorough";
    vu::Rng rng(args.num("seed", 1) * 4242 + shard);
    vu::install_case_reporter();
    uint64_t idx = 0;
    int L = thorough ? 8 : 6;
    for (int len = 1; len <= L; ++len) {
        uint64_t total = 1ull << (3 * len);
        for (uint64_t code = 0; code < total; ++code) {
            if (int(idx++ % nshards) != shard) continue;
            Run r;
            for (int k = 0; k < len && r.ok; ++k) r.apply((code >> (3 * k)) & 7);
            if (r.ok) r.finish();
        }
    }
    res.count("exhaustive_max_len", 0); res.maxi("exhaustive_max_len", L);
    uint64_t nrand = (thorough ? 3000000ull : 100000ull) / nshards;
    for (uint64_t i = 0; i < nrand; ++i) {
        Run r;
        int len = (int)rng.range(L + 1, 48);
        for (int k = 0; k < len && r.ok; ++k) {
            // bias towards lock and run so that queues build up
            int op = rng.chance(1, 3) ? (int)rng.below(2) : (int)rng.below(8);
            r.apply(op);
        }
        if (r.ok) r.finish();
        if (i == 0) res.sample("{\"ops\": " + vu::jesc(r.trace) + "}");
    }
    res.write(args.str("out", "/dev/stdout"));
    return res.violations.empty() ? 0 : 1;
}
