// C17 / C18 / C19(a): the library's packet encoders and decoders against the reference codec.
//   --mode c17 : library encoders -> reference decoder, decoded fields == supplied values
//   --mode c18 : reference encoder -> library decoders -> equal fields -> library encoder -> reference decoder
//   --mode c19 : mutated / truncated / oversized / random server packets decoded with the packet body flush against a
//                PROT_NONE page; oracles: no fault, no sanitizer report, structurally broken packets are rejected,
//                packets the reference accepts decode to the same contents.
#include <boost/mqtt5/impl/codecs/message_decoders.hpp>
#include <boost/mqtt5/impl/codecs/message_encoders.hpp>

#include <sys/mman.h>
#include <unistd.h>

#include <cstring>
#include <sstream>

#include "common/vutil.hpp"
#include "ref/gen.hpp"
#include "ref/lib2ref.hpp"
#include "ref/refcodec.hpp"

namespace mq = boost::mqtt5;
namespace enc = boost::mqtt5::encoders;
namespace dec = boost::mqtt5::decoders;
using mq::detail::byte_citer;

namespace {

vu::Result res;
const char* PROP = "C17";

std::string diff_packets(const ref::Packet& a, const ref::Packet& b) {
    std::ostringstream o;
#define F(f) if (a.f != b.f) o << #f << " differs; "
    F(type); F(dup); F(retain); F(qos); F(topic); F(payload); F(pid); F(rc);
    F(proto_name); F(proto_ver); F(clean_start); F(keep_alive); F(client_id); F(has_will); F(will_retain); F(will_qos);
    F(will_topic); F(will_payload); F(has_user); F(has_pass); F(user); F(pass); F(session_present); F(subs); F(unsubs); F(rcs);
#undef F
    if (!ref::props_equal(a.props, b.props)) o << "props differ: " << ref::props_str(ref::props_sorted(a.props)) << " vs " << ref::props_str(ref::props_sorted(b.props)) << "; ";
    if (!ref::props_equal(a.will_props, b.will_props)) o << "will props differ; ";
    return o.str();
}

void violation(const std::string& key, const std::string& what, const ref::Packet& pkt, const std::string& bytes, const std::string& more = "") {
    res.violation(PROP, std::string(PROP) + ":" + key, what,
                  "packet: " + pkt.str() + "\nbytes (" + std::to_string(bytes.size()) + "): " + vu::hex(bytes, 400) + "\n" + more);
}

// ----------------------------------------------------------------------------------------------- library encode
template <typename P> P lp(const ref::Props& in) { P p; l2r::from_ref(in, p); return p; }

std::string lib_encode(const ref::Packet& k) {
    using namespace ref;
    switch (k.type) {
        case CONNECT: {
            std::optional<std::string_view> u, pw;
            if (k.has_user) u = k.user;
            if (k.has_pass) pw = k.pass;
            std::optional<mq::will> w;
            if (k.has_will) w.emplace(k.will_topic, k.will_payload, mq::qos_e(k.will_qos), mq::retain_e(k.will_retain), lp<mq::will_props>(k.will_props));
            return enc::encode_connect(k.client_id, u, pw, k.keep_alive, k.clean_start, lp<mq::connect_props>(k.props), w);
        }
        case CONNACK: return enc::encode_connack(k.session_present, k.rc, lp<mq::connack_props>(k.props));
        case PUBLISH: return enc::encode_publish(k.pid, k.topic, k.payload, mq::qos_e(k.qos), mq::retain_e(k.retain), mq::dup_e(k.dup), lp<mq::publish_props>(k.props));
        case PUBACK: return enc::encode_puback(k.pid, k.rc, lp<mq::puback_props>(k.props));
        case PUBREC: return enc::encode_pubrec(k.pid, k.rc, lp<mq::pubrec_props>(k.props));
        case PUBREL: return enc::encode_pubrel(k.pid, k.rc, lp<mq::pubrel_props>(k.props));
        case PUBCOMP: return enc::encode_pubcomp(k.pid, k.rc, lp<mq::pubcomp_props>(k.props));
        case SUBSCRIBE: {
            std::vector<mq::subscribe_topic> t;
            for (auto& s : k.subs) t.push_back({s.first, l2r::sub_opts_from(s.second)});
            return enc::encode_subscribe(k.pid, t, lp<mq::subscribe_props>(k.props));
        }
        case SUBACK: return enc::encode_suback(k.pid, k.rcs, lp<mq::suback_props>(k.props));
        case UNSUBSCRIBE: return enc::encode_unsubscribe(k.pid, k.unsubs, lp<mq::unsubscribe_props>(k.props));
        case UNSUBACK: return enc::encode_unsuback(k.pid, k.rcs, lp<mq::unsuback_props>(k.props));
        case PINGREQ: return enc::encode_pingreq();
        case PINGRESP: return enc::encode_pingresp();
        case DISCONNECT: return enc::encode_disconnect(k.rc, lp<mq::disconnect_props>(k.props));
        case AUTH: return enc::encode_auth(k.rc, lp<mq::auth_props>(k.props));
    }
    return {};
}

// ----------------------------------------------------------------------------------------------- client packet generator
ref::Packet client_packet(ref::Gen& g, uint8_t type, int64_t mask = -1, int64_t will_mask = -1) {
    using namespace ref;
    auto& rng = g.rng;
    Packet p; p.type = type;
    switch (type) {
        case CONNECT:
            p.client_id = rng.chance(1, 8) ? "" : g.text(rng.range(1, 40));
            p.keep_alive = (uint16_t)g.num(VT::u16, 0) ; if (rng.chance(1, 6)) p.keep_alive = 0;
            p.clean_start = rng.chance(1, 2);
            p.has_user = rng.chance(1, 2); if (p.has_user) p.user = g.utf8();
            p.has_pass = rng.chance(1, 2); if (p.has_pass) p.pass = g.binary();
            p.props = g.props(CONNECT, mask);
            p.has_will = will_mask >= 0 || rng.chance(1, 2);
            if (p.has_will) {
                p.will_qos = (uint8_t)rng.below(3); p.will_retain = rng.chance(1, 2);
                p.will_topic = g.topic(); p.will_payload = g.payload(); if (p.will_payload.size() > 65535) p.will_payload.resize(65535);
                p.will_props = g.props(WILL, will_mask);
            }
            break;
        case PUBLISH:
            p.qos = (uint8_t)rng.below(3); p.retain = rng.chance(1, 3); p.dup = p.qos && rng.chance(1, 4);
            if (p.qos) p.pid = g.pid();
            p.props = g.props(PUBLISH, mask);
            {
                bool alias = false;
                for (auto& x : p.props) if (x.id == 0x23) alias = true;
                p.topic = g.topic(alias);
            }
            p.payload = g.payload();
            break;
        case PUBACK: case PUBREC: case PUBREL: case PUBCOMP:
            p.pid = g.pid(); p.rc = g.rc(type, Dir::from_client); p.props = g.props(type, mask);
            break;
        case SUBSCRIBE: {
            p.pid = g.pid(); p.props = g.props(SUBSCRIBE, mask);
            size_t n = g.big && rng.chance(1, 25) ? rng.range(200, 2000) : rng.range(1, 5);
            for (size_t i = 0; i < n; ++i) {
                uint8_t o = uint8_t(rng.below(3) | (rng.below(2) << 2) | (rng.below(2) << 3) | (rng.below(3) << 4));
                p.subs.emplace_back(g.filter(), o);
            }
            break;
        }
        case UNSUBSCRIBE: {
            p.pid = g.pid(); p.props = g.props(UNSUBSCRIBE, mask);
            size_t n = g.big && rng.chance(1, 25) ? rng.range(200, 2000) : rng.range(1, 5);
            for (size_t i = 0; i < n; ++i) p.unsubs.push_back(g.filter());
            break;
        }
        case DISCONNECT: p.rc = g.rc(DISCONNECT, Dir::from_client); p.props = g.props(DISCONNECT, mask); break;
        case AUTH: p.rc = g.rc(AUTH, Dir::from_client); p.props = g.props(AUTH, mask); break;
        default: break;
    }
    return p;
}

uint64_t shape_hash(const ref::Packet& p, size_t wire_size) {
    uint64_t h = vu::mix(1469598103934665603ull, p.type);
    uint64_t mask = 0;
    for (auto& x : p.props) mask |= 1ull << (x.id & 63);
    for (auto& x : p.will_props) mask |= 1ull << ((x.id + 20) & 63);
    h = vu::mix(h, mask);
    h = vu::mix(h, (p.qos << 3) | (p.dup << 2) | (p.retain << 1) | p.has_will);
    h = vu::mix(h, p.short_form);
    h = vu::mix(h, ref::varint_size((uint32_t)wire_size));
    h = vu::mix(h, std::min<size_t>(p.subs.size() + p.unsubs.size() + p.rcs.size(), 3));
    return h;
}

// ----------------------------------------------------------------------------------------------- C17
void c17_one(const ref::Packet& want) {
    res.evaluations++;
    std::string bytes = lib_encode(want);
    res.count(std::string("encoded_") + ref::type_name(want.type));
    res.hash(shape_hash(want, bytes.size()));
    auto d = ref::decode(bytes, ref::Dir::from_client);
    if (d.status != ref::Status::ok) {
        violation(std::string("not-well-formed:") + ref::type_name(want.type), std::string("reference decoder rejects the emitted ") + ref::type_name(want.type) + ": " + d.error, want, bytes);
        return;
    }
    if (d.consumed != bytes.size()) {
        violation(std::string("remaining-length:") + ref::type_name(want.type), "Remaining Length does not match the bytes produced", want, bytes);
        return;
    }
    if (!d.protocol_issues.empty()) {
        violation(std::string("protocol-issue:") + ref::type_name(want.type), "emitted packet is well formed but not allowed: " + d.protocol_issues[0], want, bytes);
        return;
    }
    std::string df = diff_packets(want, d.pkt);
    if (!df.empty()) violation(std::string("fields-differ:") + ref::type_name(want.type), "decoded fields differ from the supplied values: " + df, want, bytes, "decoded: " + d.pkt.str());
    if (res.samples.size() < 3 && want.type != ref::PINGREQ && bytes.size() < 120)
        res.sample("{\"asked\": " + vu::jesc(want.str()) + ", \"emitted_hex\": " + vu::jesc(vu::hex(bytes, 120)) + "}");
}

void run_c17(vu::Rng& rng, bool thorough, int shard, int nshards) {
    PROP = "C17";
    static const uint8_t types[] = {ref::CONNECT, ref::PUBLISH, ref::PUBACK, ref::PUBREC, ref::PUBREL, ref::PUBCOMP, ref::SUBSCRIBE, ref::UNSUBSCRIBE,
                                    ref::PINGREQ, ref::DISCONNECT, ref::AUTH};
    ref::Gen g(rng);
    uint64_t idx = 0;
    // presence enumeration: every subset of the properties allowed for the type
    for (uint8_t t : types) {
        int k = ref::Gen::prop_count(t);
        for (int64_t m = 0; m < (1ll << k); ++m) { if (int(idx++ % nshards) != shard) continue; c17_one(client_packet(g, t, m)); res.count("presence_subsets"); }
    }
    {   // Will properties
        int k = ref::Gen::prop_count(ref::WILL);
        for (int64_t m = 0; m < (1ll << k); ++m) { if (int(idx++ % nshards) != shard) continue; c17_one(client_packet(g, ref::CONNECT, -1, m)); res.count("presence_subsets"); }
    }
    g.big = true;
    uint64_t n = (thorough ? 4000000ull : 100000ull) / nshards;
    for (uint64_t i = 0; i < n; ++i) {
        g.big = (i % 8) == 0;   // boundary sizes are expensive (65535-byte strings, 2 MiB payloads)
        c17_one(client_packet(g, types[rng.below(sizeof types)]));
    }
}

// ----------------------------------------------------------------------------------------------- library decode
// Decodes the body the way the client does after it has framed a packet. Returns false if the library rejects it.
// `why` is set for rejections made by client-side framing rules replicated here (flags, minimum sizes).
bool lib_decode(uint8_t cb, const char* body, size_t n, ref::Packet& out, std::string& why) {
    using namespace ref;
    uint8_t type = cb >> 4, flags = cb & 15;
    out = Packet(); out.type = type;
    byte_citer it(body);
    uint8_t want = type == PUBREL ? 2 : 0;
    if (type != PUBLISH && flags != want) { why = "flags"; return false; }
    auto need_pid = [&]() {
        if (n < 2) { why = "too short for packet id"; return false; }
        out.pid = *dec::decode_packet_id(it); n -= 2; return true;
    };
    switch (type) {
        case CONNACK: {
            auto r = dec::decode_connack((uint32_t)n, it); if (!r) return false;
            auto& [sp, rc, props] = *r; out.session_present = sp & 1; out.rc = rc; out.props = l2r::to_ref(props);
            if (sp & 0xFE) out.client_id = "reserved-flags";   // marker: library does not look at reserved bits
            return true;
        }
        case PUBLISH: {
            auto r = dec::decode_publish(cb, (uint32_t)n, it); if (!r) return false;
            auto& [topic, pid, fl, props, payload] = *r;
            if (((fl >> 1) & 3) == 3) { why = "qos3"; return false; }
            out.topic = topic; out.pid = pid.value_or(0); out.qos = (fl >> 1) & 3; out.dup = fl & 8; out.retain = fl & 1;
            out.props = l2r::to_ref(props); out.payload = payload;
            return true;
        }
        case PUBACK: { if (!need_pid()) return false; auto r = dec::decode_puback((uint32_t)n, it); if (!r) return false; out.rc = std::get<0>(*r); out.props = l2r::to_ref(std::get<1>(*r)); return true; }
        case PUBREC: { if (!need_pid()) return false; auto r = dec::decode_pubrec((uint32_t)n, it); if (!r) return false; out.rc = std::get<0>(*r); out.props = l2r::to_ref(std::get<1>(*r)); return true; }
        case PUBREL: { if (!need_pid()) return false; auto r = dec::decode_pubrel((uint32_t)n, it); if (!r) return false; out.rc = std::get<0>(*r); out.props = l2r::to_ref(std::get<1>(*r)); return true; }
        case PUBCOMP: { if (!need_pid()) return false; auto r = dec::decode_pubcomp((uint32_t)n, it); if (!r) return false; out.rc = std::get<0>(*r); out.props = l2r::to_ref(std::get<1>(*r)); return true; }
        case SUBACK: { if (!need_pid()) return false; auto r = dec::decode_suback((uint32_t)n, it); if (!r) return false; out.props = l2r::to_ref(std::get<0>(*r)); out.rcs = std::get<1>(*r); return true; }
        case UNSUBACK: { if (!need_pid()) return false; auto r = dec::decode_unsuback((uint32_t)n, it); if (!r) return false; out.props = l2r::to_ref(std::get<0>(*r)); out.rcs = std::get<1>(*r); return true; }
        case DISCONNECT: { auto r = dec::decode_disconnect((uint32_t)n, it); if (!r) return false; out.rc = std::get<0>(*r); out.props = l2r::to_ref(std::get<1>(*r)); return true; }
        case AUTH: { auto r = dec::decode_auth((uint32_t)n, it); if (!r) return false; out.rc = std::get<0>(*r); out.props = l2r::to_ref(std::get<1>(*r)); return true; }
        case PINGRESP: return true;
        default: why = "not a server packet"; return false;
    }
}

// ----------------------------------------------------------------------------------------------- C18
void c18_one(const ref::Packet& want) {
    res.evaluations++;
    std::string bytes = ref::encode(want);
    res.count(std::string("decoded_") + ref::type_name(want.type));
    res.hash(shape_hash(want, bytes.size()));
    // self check of the reference codec
    auto self = ref::decode(bytes, ref::Dir::from_server);
    if (!self.strict_ok() || self.consumed != bytes.size() || !diff_packets(want, self.pkt).empty()) {
        res.harness_error = "reference codec self-check failed for " + want.str() + ": " + self.error + (self.protocol_issues.empty() ? "" : self.protocol_issues[0]) + diff_packets(want, self.pkt);
        return;
    }
    byte_citer it(bytes.data()), last(bytes.data() + bytes.size());
    auto fh = dec::decode_fixed_header(it, last);
    if (!fh) { violation(std::string("fixed-header:") + ref::type_name(want.type), "decode_fixed_header fails on a well-formed packet", want, bytes); return; }
    auto [cb, rem] = *fh;
    size_t hdr = size_t(&*it - bytes.data());
    if (cb != uint8_t(bytes[0]) || hdr + rem != bytes.size()) { violation(std::string("fixed-header-values:") + ref::type_name(want.type), "decode_fixed_header yields wrong control byte / remaining length", want, bytes); return; }
    ref::Packet got; std::string why;
    if (!lib_decode(cb, bytes.data() + hdr, rem, got, why)) {
        violation(std::string("rejects-well-formed:") + ref::type_name(want.type), std::string("library decoder rejects a well-formed ") + ref::type_name(want.type) + " " + why, want, bytes);
        return;
    }
    std::string df = diff_packets(want, got);
    if (!df.empty()) { violation(std::string("fields-differ:") + ref::type_name(want.type), "decoded fields differ from the encoded ones: " + df, want, bytes, "library decoded: " + got.str()); return; }
    // encode the result again with the library's encoder: same contents
    std::string again = lib_encode(got);
    auto d2 = ref::decode(again, ref::Dir::from_server);
    if (d2.status != ref::Status::ok || d2.consumed != again.size()) { violation(std::string("reencode-malformed:") + ref::type_name(want.type), "re-encoded packet is not well formed: " + d2.error, want, again); return; }
    df = diff_packets(want, d2.pkt);
    if (!df.empty()) violation(std::string("reencode-differs:") + ref::type_name(want.type), "re-encoding the decoded packet changes its contents: " + df, want, again);
    if (res.samples.size() < 3 && bytes.size() < 100 && !want.props.empty())
        res.sample("{\"encoded\": " + vu::jesc(want.str()) + ", \"hex\": " + vu::jesc(vu::hex(bytes, 100)) + "}");
}

const uint8_t SERVER_TYPES[] = {ref::CONNACK, ref::PUBLISH, ref::PUBACK, ref::PUBREC, ref::PUBREL, ref::PUBCOMP, ref::SUBACK, ref::UNSUBACK, ref::DISCONNECT, ref::AUTH};

void run_c18(vu::Rng& rng, bool thorough, int shard, int nshards) {
    PROP = "C18";
    ref::Gen g(rng);
    uint64_t idx = 0;
    for (uint8_t t : SERVER_TYPES) {
        int k = ref::Gen::prop_count(t);
        for (int64_t m = 0; m < (1ll << k); ++m) { if (int(idx++ % nshards) != shard) continue; c18_one(g.server_packet(t, m)); res.count("presence_subsets"); }
        // every short form explicitly
        for (int form = 0; form < 3; ++form) {
            if (int(idx++ % nshards) != shard) continue;
            ref::Packet p = g.server_packet(t, 0); p.props.clear(); p.short_form = uint8_t(form);
            if (form == 2) p.rc = 0;
            if (t == ref::PUBACK || t == ref::PUBREC || t == ref::PUBREL || t == ref::PUBCOMP || t == ref::DISCONNECT || (t == ref::AUTH && form != 1)) { c18_one(p); res.count("short_forms"); }
        }
    }
    uint64_t n = (thorough ? 4000000ull : 100000ull) / nshards;
    for (uint64_t i = 0; i < n; ++i) {
        g.big = (i % 8) == 0;
        c18_one(g.server_packet(SERVER_TYPES[rng.below(sizeof SERVER_TYPES)]));
    }
}

// ----------------------------------------------------------------------------------------------- C19 (a)
struct Guarded {
    char* base = nullptr; size_t size = 0;
    explicit Guarded(size_t sz) {
        long pg = sysconf(_SC_PAGESIZE);
        size = (sz + pg - 1) / pg * pg;
        base = (char*)mmap(nullptr, size + pg, PROT_READ | PROT_WRITE, MAP_PRIVATE | MAP_ANONYMOUS, -1, 0);
        if (base == MAP_FAILED) { base = nullptr; return; }
        mprotect(base + size, pg, PROT_NONE);
    }
    // copies [p, p+n) so that its last byte is the last accessible byte
    const char* place(const char* p, size_t n) { char* d = base + size - n; std::memcpy(d, p, n); return d; }
};

bool must_reject(const std::string& err) {
    // don't-care: a body that ends where the Property Length would start. The library applies the
    // "absent Property Length = no properties" short form to every packet type, MQTT 5 only to some; no byte is
    // read or invented either way.
    if (err == "truncated property length") return false;
    return err.rfind("truncated", 0) == 0 || err == "property length exceeds packet" || err.rfind("unknown property id", 0) == 0 ||
           err.find("not allowed in") != std::string::npos;
}

Guarded* guard = nullptr;

void c19_one(const std::string& stream, const char* family) {
    res.evaluations++;
    vu::set_case(std::string("family=") + family + " bytes=" + vu::hex(stream, 200));
    // frame like assemble_op does: control byte + varint, packet complete only if the declared bytes are there
    if (stream.size() < 2) return;
    uint8_t cb = (uint8_t)stream[0];
    uint32_t rem = 0; size_t i = 1; int shift = 0; bool ok = false;
    for (int k = 0; k < 4 && i < stream.size(); ++k) { uint8_t b = stream[i++]; rem |= uint32_t(b & 0x7f) << shift; shift += 7; if (!(b & 0x80)) { ok = true; break; } }
    if (!ok) { res.count("unframed"); return; }
    if (stream.size() - i < rem) { res.count("incomplete"); return; }
    if (rem > guard->size) return;
    const char* body = guard->place(stream.data() + i, rem);
    ref::Packet got; std::string why;
    bool accepted = lib_decode(cb, body, rem, got, why);
    res.count(accepted ? "lib_accepted" : "lib_rejected");
    auto d = ref::decode(std::string_view(stream.data(), i + rem), ref::Dir::from_server);
    uint64_t h = vu::mix(vu::mix(1469598103934665603ull, cb), accepted);
    h = vu::mix(h, (uint64_t)d.status);
    h = vu::fnv(d.error.substr(0, 24), h);
    res.hash(h);
    ref::Packet shown = d.pkt;
    if (d.status == ref::Status::malformed) {
        res.count("ref_malformed");
        if (accepted && must_reject(d.error)) {
            std::string cls = d.error.substr(0, d.error.find(' ', 10) == std::string::npos ? d.error.size() : d.error.find(' ', 10));
            violation(std::string("accepts-malformed:") + ref::type_name(cb >> 4) + ":" + cls,
                      std::string("library decoder accepts a structurally broken ") + ref::type_name(cb >> 4) + " (" + d.error + ")", shown, stream, std::string("family: ") + family + "\nlibrary decoded: " + got.str());
        } else if (accepted) res.count("dont_care_lenient");
    } else if (d.status == ref::Status::ok) {
        res.count("ref_ok");
        bool server_type = false;
        for (uint8_t t : SERVER_TYPES) if (t == (cb >> 4)) server_type = true;
        if (!server_type) return;
        if (!accepted) {
            violation(std::string("rejects-well-formed:") + ref::type_name(cb >> 4), std::string("library rejects a packet the reference accepts ") + why, shown, stream, std::string("family: ") + family);
        } else {
            std::string df = diff_packets(d.pkt, got);
            if (!df.empty()) violation(std::string("fields-differ:") + ref::type_name(cb >> 4), "decoded fields differ: " + df, shown, stream, std::string("family: ") + family + "\nlibrary decoded: " + got.str());
        }
    }
}

std::string put_field(const std::string& pkt, const ref::LenField& f, uint32_t v) {
    std::string e;
    if (f.varint) ref::put_varint(e, v & 0x0FFFFFFF); else ref::put_u16(e, (uint16_t)v);
    return pkt.substr(0, f.offset) + e + pkt.substr(f.offset + f.width);
}

void run_c19(vu::Rng& rng, bool thorough, int shard, int nshards) {
    PROP = "C19";
    Guarded gp(4u << 20);
    if (!gp.base) { res.harness_error = "mmap failed"; return; }
    guard = &gp;
    ref::Gen g(rng);
    uint64_t idx = 0;
    auto tail = [&]() { std::string t(rng.range(0, 24), 0); for (auto& c : t) c = char(rng.below(256)); return t; };
    // (1) structured: every length-bearing field of generated packets x boundary values
    int reps = thorough ? 400 : 40;
    for (int rep = 0; rep < reps; ++rep)
        for (uint8_t t : SERVER_TYPES) {
            if (int(idx++ % nshards) != shard) continue;
            ref::Packet p = g.server_packet(t, rep == 0 ? (1ll << ref::Gen::prop_count(t)) - 1 : -1);
            if (p.payload.size() > 300) p.payload.resize(300);
            std::string bytes = ref::encode(p);
            std::vector<ref::LenField> fields;
            ref::set_len_trace(&fields);
            ref::decode(bytes, ref::Dir::from_server);
            ref::set_len_trace(nullptr);
            for (auto& f : fields) {
                uint32_t tv = f.value;
                uint32_t max = f.varint ? 268435455u : 65535u;
                for (uint32_t v : {0u, 1u, 2u, tv - 1, tv + 1, tv + 2, 127u, 128u, 16383u, 16384u, max, max - 1}) {
                    if (v == tv || v > max) continue;
                    std::string m = put_field(bytes, f, v);
                    c19_one(m + tail(), "length-field");
                    res.count("length_field_mutations");
                }
            }
            // truncations at every byte (with the remaining length adjusted, so the frame is complete but the body is cut)
            size_t hdr = 1 + ref::varint_size((uint32_t)(bytes.size() - 1 - ref::varint_size((uint32_t)bytes.size())));
            (void)hdr;
            auto d0 = ref::decode(bytes, ref::Dir::from_server);
            size_t h0 = bytes.size() - (d0.consumed - (d0.consumed > 0 ? 0 : 0));
            (void)h0;
            size_t body_off = 1; { uint32_t r = 0; int s = 0; while (body_off < bytes.size()) { uint8_t b = bytes[body_off++]; r |= (b & 0x7f) << s; s += 7; if (!(b & 0x80)) break; } }
            std::string body = bytes.substr(body_off);
            for (size_t cut = 0; cut < body.size() && cut < 200; ++cut) {
                c19_one(ref::frame((uint8_t)bytes[0], body.substr(0, cut)), "truncation");
                res.count("truncations");
            }
        }
    // (2) byte-level mutations of valid packets and pure random bytes
    uint64_t n = (thorough ? 6000000ull : 200000ull) / nshards;
    for (uint64_t i = 0; i < n; ++i) {
        g.big = false;
        if (rng.chance(1, 10)) {
            std::string r(rng.range(2, 40), 0);
            for (auto& c : r) c = char(rng.below(256));
            if (rng.chance(1, 2)) r[0] = char((SERVER_TYPES[rng.below(sizeof SERVER_TYPES)] << 4) | (rng.chance(1, 4) ? rng.below(16) : 0));
            if (rng.chance(1, 2)) r[1] = char(rng.below(r.size()));
            c19_one(r, "random");
            continue;
        }
        ref::Packet p = g.server_packet(SERVER_TYPES[rng.below(sizeof SERVER_TYPES)]);
        if (p.payload.size() > 64) p.payload.resize(64);
        std::string b = ref::encode(p);
        int nm = (int)rng.range(1, 3);
        for (int k = 0; k < nm; ++k) {
            size_t pos = rng.below(b.size());
            switch (rng.below(6)) {
                case 0: b[pos] = char(rng.below(256)); break;
                case 1: b[pos] ^= char(1 << rng.below(8)); break;
                case 2: b.erase(pos, rng.range(1, 4)); break;
                case 3: b.insert(pos, std::string(rng.range(1, 4), char(rng.below(256)))); break;
                case 4: b[pos] = char(0xFF); break;
                case 5: b[pos] = 0; break;
            }
            if (b.empty()) b = "\x20";
        }
        // keep the frame consistent half of the time so that the body decoders are reached
        if (rng.chance(1, 2) && b.size() >= 2) {
            size_t off = 1; while (off < b.size() && (b[off] & 0x80) && off < 4) ++off; ++off;
            if (off <= b.size()) b = ref::frame((uint8_t)b[0], b.substr(off));
        }
        c19_one(b + tail(), "mutation");
    }
    guard = nullptr;
    res.sample("{\"family\": \"length-field\", \"example\": \"PUBACK with Property Length 127 inside a 4-byte body, body flush against a PROT_NONE page\"}");
}

}  // namespace

#ifdef VERIF_FUZZ
// libFuzzer entry (clang -fsanitize=fuzzer,address,undefined): the input is a byte stream a broker might send; every violation
// of the C19 decoder oracles aborts, so that libFuzzer keeps the input as an artifact.
extern "C" int LLVMFuzzerTestOneInput(const uint8_t* data, size_t size) {
    static Guarded gp(1u << 20);
    PROP = "C19";
    guard = &gp;
    size_t before = res.violations.size();
    c19_one(std::string(reinterpret_cast<const char*>(data), size), "libfuzzer");
    if (res.violations.size() != before) {
        auto& v = res.violations.back();
        fprintf(stderr, "FUZZ-VIOLATION key=%s what=%s\n", v.key.c_str(), v.what.c_str());
        abort();
    }
    if (res.hashes.size() > 100000) res.hashes.clear();
    return 0;
}
#else
int main(int argc, char** argv) {
    vu::Args args(argc, argv);
    int shard, nshards; args.shard(shard, nshards);
    bool thorough = args.str("tier", "quick") == "thorough";
    std::string mode = args.str("mode", "c17");
    vu::install_case_reporter();
    vu::Rng rng(args.num("seed", 1) * 92821 + shard * 131 + (mode == "c17" ? 1 : mode == "c18" ? 2 : 3));
    if (mode == "c17") run_c17(rng, thorough, shard, nshards);
    else if (mode == "c18") run_c18(rng, thorough, shard, nshards);
    else if (mode == "c19") run_c19(rng, thorough, shard, nshards);
    else if (mode == "corpus") {
        // seed corpus for the fuzz target: one well-formed packet of every server type in several shapes
        ref::Gen g(rng); g.max_str = 20;
        std::string dir = args.str("dir", ".");
        int n = 0;
        for (uint8_t t : SERVER_TYPES)
            for (int k = 0; k < 6; ++k) {
                ref::Packet p = g.server_packet(t, k == 0 ? (1ll << ref::Gen::prop_count(t)) - 1 : -1);
                if (p.payload.size() > 64) p.payload.resize(64);
                std::string b = ref::encode(p);
                FILE* f = fopen((dir + "/seed" + std::to_string(n++)).c_str(), "wb");
                if (f) { fwrite(b.data(), 1, b.size(), f); fclose(f); }
            }
        res.evaluations = n;
    }
    else res.harness_error = "unknown mode";
    res.write(args.str("out", "/dev/stdout"));
    return res.violations.empty() ? 0 : 1;
}
#endif
