// C08 (unit level): packet_id_allocator against a bitset model.
#include <boost/mqtt5/detail/control_packet.hpp>

#include <bitset>
#include <memory>
#include <sstream>

#include "common/vutil.hpp"

using boost::mqtt5::detail::packet_id_allocator;

namespace {

vu::Result res;

struct Model {
    std::bitset<65536> used;
    size_t count = 0;
    std::vector<uint16_t> order;   // ids in allocation order (for free(oldest/newest/middle))
};

struct Sut {
    packet_id_allocator a;
    Model m;
    std::string trace;
    bool ok = true;

    void fail(const std::string& key, const std::string& what) {
        ok = false;
        res.violation("C08", "C08:allocator:" + key, what, "operation trace (A=allocate->id, F=free id):\n" + trace);
    }
    void alloc() {
        uint16_t id = a.allocate();
        if (trace.size() < 4000) trace += "A" + std::to_string(id) + " ";
        res.count("allocations");
        if (id == 0) {
            res.count("overruns");
            if (m.count != 65535) fail("overrun-while-ids-free", "allocate() returned 0 with only " + std::to_string(m.count) + " ids in use");
            return;
        }
        if (m.used[id]) { fail("id-in-use", "allocate() returned id " + std::to_string(id) + " which is still in use"); return; }
        m.used[id] = true; m.count++; m.order.push_back(id);
    }
    void free_at(size_t pos) {
        if (m.order.empty()) return;
        pos %= m.order.size();
        uint16_t id = m.order[pos];
        m.order.erase(m.order.begin() + pos);
        m.used[id] = false; m.count--;
        if (trace.size() < 4000) trace += "F" + std::to_string(id) + " ";
        a.free(id);
        res.count("frees");
    }
};

// prefill n ids, then optionally free a pattern
void prefill(Sut& s, size_t n) { for (size_t i = 0; i < n && s.ok; ++i) s.alloc(); }

uint64_t state_hash(const Sut& s) {
    // abstract state: number in use + run structure of the first 64 ids + whether full
    uint64_t h = vu::mix(1469598103934665603ull, s.m.count);
    uint64_t bits = 0;
    for (int i = 1; i <= 64; ++i) bits = (bits << 1) | (s.m.used[i] ? 1 : 0);
    h = vu::mix(h, bits);
    bits = 0;
    for (int i = 65535 - 63; i <= 65535; ++i) bits = (bits << 1) | (s.m.used[i] ? 1 : 0);
    return vu::mix(h, bits);
}

// ops: 0 alloc, 1 free oldest, 2 free newest, 3 free middle
void apply(Sut& s, int op) {
    switch (op) {
        case 0: s.alloc(); break;
        case 1: s.free_at(0); break;
        case 2: s.free_at(s.m.order.size() ? s.m.order.size() - 1 : 0); break;
        case 3: s.free_at(s.m.order.size() / 2); break;
    }
}

void run_sequence(size_t pre, int prefrees, const std::vector<int>& ops, uint64_t code) {
    Sut s;
    prefill(s, pre);
    for (int i = 0; i < prefrees && s.ok; ++i) s.free_at(size_t(i) * 7919 + 3);
    for (int op : ops) { if (!s.ok) break; apply(s, op); res.hash(state_hash(s)); }
    res.evaluations++;
    // every freed id must be allocatable again: drain completely and compare the count
    if (s.ok && (code % 4096) == 0) {
        size_t free_ids = 65535 - s.m.count, got = 0;
        while (s.ok) {
            uint16_t before = s.m.count;
            s.alloc();
            if (s.m.count == before) break;
            ++got;
        }
        if (s.ok && got != free_ids) s.fail("freed-id-lost", "after the sequence only " + std::to_string(got) + " of " + std::to_string(free_ids) + " free ids could be allocated");
        res.count("full_drains");
    }
}

}  // namespace

int main(int argc, char** argv) {
    vu::Args args(argc, argv);
    int shard, nshards; args.shard(shard, nshards);
    bool thorough = args.str("tier", "quick") == "thorough";
    vu::Rng rng(args.num("seed", 1) * 7777 + shard);
    uint64_t idx = 0;
    auto mine = [&]() { return int(idx++ % nshards) == shard; };

    // (1) all sequences over {alloc, free oldest, free newest, free middle} up to length L from small states
    int L = thorough ? 11 : 9;
    for (size_t pre : {0u, 1u, 3u, 6u})
        for (int prefrees : {0, 2}) {
            if (prefrees > (int)pre) continue;
            for (int len = 1; len <= L; ++len) {
                uint64_t total = 1ull << (2 * len);
                for (uint64_t code = 0; code < total; ++code) {
                    if (!mine()) continue;
                    std::vector<int> ops(len);
                    for (int k = 0; k < len; ++k) ops[k] = (code >> (2 * k)) & 3;
                    run_sequence(pre, prefrees, ops, code);
                }
            }
        }
    // (2) near-full states: short sequences, all of them (the start state costs 65k allocations)
    int Ln = thorough ? 5 : 3;
    for (size_t pre : {65533u, 65534u, 65535u})
        for (int len = 1; len <= Ln; ++len)
            for (uint64_t code = 0; code < (1ull << (2 * len)); ++code) {
                if (!mine()) continue;
                std::vector<int> ops(len);
                for (int k = 0; k < len; ++k) ops[k] = (code >> (2 * k)) & 3;
                run_sequence(pre, 0, ops, 0);
                res.count("near_full_sequences");
            }
    // (3) exhaustion and re-exhaustion with different release orders
    {
        int variant = 0;
        for (const char* order : {"ascending", "descending", "random", "alternating", "every-second"}) {
            if (!mine()) { ++variant; continue; }
            Sut s;
            prefill(s, 65535);
            s.alloc();   // must overrun
            std::vector<uint16_t> ids = s.m.order;
            std::string o = order;
            if (o == "descending") std::reverse(ids.begin(), ids.end());
            else if (o == "random") for (size_t i = ids.size(); i > 1; --i) std::swap(ids[i - 1], ids[rng.below(i)]);
            else if (o == "alternating") { std::vector<uint16_t> t; for (size_t i = 0, j = ids.size(); i < j;) { t.push_back(ids[i++]); if (i < j) t.push_back(ids[--j]); } ids = t; }
            else if (o == "every-second") { std::vector<uint16_t> t; for (size_t i = 0; i < ids.size(); i += 2) t.push_back(ids[i]); for (size_t i = 1; i < ids.size(); i += 2) t.push_back(ids[i]); ids = t; }
            size_t nfree = o == "random" ? 40000 : ids.size();
            for (size_t i = 0; i < nfree && s.ok; ++i) {
                uint16_t id = ids[i];
                s.m.used[id] = false; s.m.count--;
                s.a.free(id);
                if (i % 977 == 0) {   // interleave an allocation and give it back
                    uint16_t got = s.a.allocate();
                    if (got == 0 || s.m.used[got]) { s.fail("realloc-after-free", "allocate() after frees returned " + std::to_string(got)); break; }
                    s.a.free(got);
                }
            }
            s.m.order.clear();
            for (int i = 1; i <= 65535; ++i) if (s.m.used[i]) s.m.order.push_back(uint16_t(i));
            // re-exhaust
            size_t expect = 65535 - s.m.count, got = 0;
            while (s.ok) { size_t before = s.m.count; s.alloc(); if (s.m.count == before) break; ++got; }
            if (s.ok && got != expect) s.fail("re-exhaust-count", std::string(order) + ": re-exhaustion allocated " + std::to_string(got) + " ids, expected " + std::to_string(expect));
            res.evaluations++; res.count("exhaustion_runs"); res.hash(vu::mix(0xE, variant));
            ++variant;
        }
    }
    // (4) long random walks with changing alloc/free bias
    {
        uint64_t steps = (thorough ? 20000000ull : 1500000ull) / nshards;
        Sut s;
        int bias = 50;
        for (uint64_t i = 0; i < steps && s.ok; ++i) {
            if (i % 5000 == 0) bias = (int)rng.range(20, 80);
            if ((int)rng.below(100) < bias) s.alloc();
            else s.free_at(rng.chance(1, 3) ? 0 : rng.next());
            if (i % 64 == 0) res.hash(state_hash(s));
            s.trace.clear();
        }
        res.evaluations++; res.count("random_walk_steps", steps);
    }
    res.sample("{\"sequence\": \"prefill 3; A F(oldest) A A F(middle)\", \"oracle\": \"id != 0 unless 65535 in use; id not in use; freed ids allocatable again\"}");
    res.write(args.str("out", "/dev/stdout"));
    return res.violations.empty() ? 0 : 1;
}
