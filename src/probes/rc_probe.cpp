// C20: reason-code admission. All 9 categories x 256 byte values, one forked child per pair so that an
// out-of-table read (ASan global-buffer-overflow) is attributed to the exact input.
//
// reason_codes.hpp is included inside an unnamed namespace: its function-local tables then get internal
// linkage, which is what makes ASan put red zones around them (COMDAT/linkonce globals are not instrumented).
#include <algorithm>
#include <cstdint>
#include <optional>
#include <ostream>
#include <string>
#include <type_traits>
#include <utility>

namespace {
#include <boost/mqtt5/reason_codes.hpp>
}

#include <sys/wait.h>
#include <unistd.h>

#include <set>
#include <sstream>

#include "common/vutil.hpp"

namespace rc = boost::mqtt5::reason_codes;
using boost::mqtt5::to_reason_code;

namespace {

struct Cat {
    const char* name;
    rc::category cat;
    std::set<int> listed;      // MQTT 5 lists the code for this packet type (table 2-6 / per-packet tables)
    std::set<int> server_may;  // ... and a Server may send it in that packet
};

std::vector<Cat> reference() {
    using C = rc::category;
    std::vector<Cat> v;
    v.push_back({"connack", C::connack,
        {0x00,0x80,0x81,0x82,0x83,0x84,0x85,0x86,0x87,0x88,0x89,0x8A,0x8C,0x90,0x95,0x97,0x99,0x9A,0x9B,0x9C,0x9D,0x9F}, {}});
    v.push_back({"puback", C::puback, {0x00,0x10,0x80,0x83,0x87,0x90,0x91,0x97,0x99}, {}});
    v.push_back({"pubrec", C::pubrec, {0x00,0x10,0x80,0x83,0x87,0x90,0x91,0x97,0x99}, {}});
    v.push_back({"pubrel", C::pubrel, {0x00,0x92}, {}});
    v.push_back({"pubcomp", C::pubcomp, {0x00,0x92}, {}});
    v.push_back({"suback", C::suback, {0x00,0x01,0x02,0x80,0x83,0x87,0x8F,0x91,0x97,0x9E,0xA1,0xA2}, {}});
    v.push_back({"unsuback", C::unsuback, {0x00,0x11,0x80,0x83,0x87,0x8F,0x91}, {}});
    // AUTH: 0x19 (re-authenticate) is sent by clients only -> listed, not required
    v.push_back({"auth", C::auth, {0x00,0x18,0x19}, {0x00,0x18}});
    // DISCONNECT: 0x04 is client-only; 0x8C appears in table 2-6 but not in 3.14.2.1 -> listed, not required
    v.push_back({"disconnect", C::disconnect,
        {0x00,0x04,0x80,0x81,0x82,0x83,0x87,0x89,0x8B,0x8C,0x8D,0x8E,0x8F,0x90,0x93,0x94,0x95,0x96,0x97,0x98,0x99,
         0x9A,0x9B,0x9C,0x9D,0x9E,0x9F,0xA0,0xA1,0xA2},
        {0x00,0x80,0x81,0x82,0x83,0x87,0x89,0x8B,0x8D,0x8E,0x8F,0x90,0x93,0x94,0x95,0x96,0x97,0x98,0x99,
         0x9A,0x9B,0x9C,0x9D,0x9E,0x9F,0xA0,0xA1,0xA2}});
    for (auto& c : v) if (c.server_may.empty()) c.server_may = c.listed;
    return v;
}

// returns -1 for "not accepted", else the value reported
int lookup(rc::category cat, uint8_t b) {
    using C = rc::category;
    std::optional<boost::mqtt5::reason_code> r;
    switch (cat) {
        case C::connack: r = to_reason_code<C::connack>(b); break;
        case C::puback: r = to_reason_code<C::puback>(b); break;
        case C::pubrec: r = to_reason_code<C::pubrec>(b); break;
        case C::pubrel: r = to_reason_code<C::pubrel>(b); break;
        case C::pubcomp: r = to_reason_code<C::pubcomp>(b); break;
        case C::suback: r = to_reason_code<C::suback>(b); break;
        case C::unsuback: r = to_reason_code<C::unsuback>(b); break;
        case C::auth: r = to_reason_code<C::auth>(b); break;
        case C::disconnect: r = to_reason_code<C::disconnect>(b); break;
        default: break;
    }
    return r ? int(r->value()) : -1;
}

}  // namespace

int main(int argc, char** argv) {
    vu::Args args(argc, argv);
    int shard, nshards; args.shard(shard, nshards);
    vu::Result res;
    auto ref = reference();

    size_t idx = 0;
    for (size_t ci = 0; ci < ref.size(); ++ci) {
        const Cat& c = ref[ci];
        for (int b = 0; b < 256; ++b, ++idx) {
            if (int(idx % nshards) != shard) continue;
            int pfd[2], efd[2];
            if (pipe(pfd) || pipe(efd)) { res.harness_error = "pipe failed"; break; }
            pid_t pid = fork();
            if (pid < 0) { res.harness_error = "fork failed"; break; }
            if (pid == 0) {
                close(pfd[0]); close(efd[0]);
                dup2(efd[1], 2);
                int v = lookup(c.cat, uint8_t(b));
                if (write(pfd[1], &v, sizeof v) != (ssize_t)sizeof v) _exit(99);
                _exit(0);
            }
            close(pfd[1]); close(efd[1]);
            int v = -2;
            ssize_t n = read(pfd[0], &v, sizeof v);
            std::string err; char buf[4096]; ssize_t k;
            while ((k = read(efd[0], buf, sizeof buf)) > 0) if (err.size() < 6000) err.append(buf, k);
            close(pfd[0]); close(efd[0]);
            int st = 0; waitpid(pid, &st, 0);
            res.evaluations++;
            bool died = !(WIFEXITED(st) && WEXITSTATUS(st) == 0) || n != (ssize_t)sizeof v;
            std::ostringstream cs; cs << "category=" << c.name << " byte=0x" << std::hex << b;
            bool listed = c.listed.count(b), must = c.server_may.count(b);
            std::string cls = std::string(c.name) + (listed ? (must ? ":required" : ":optional") : ":forbidden");
            res.hash(vu::fnv(cls + ":" + std::to_string(b)));
            res.count(listed ? (must ? "required_pairs" : "optional_pairs") : "forbidden_pairs");
            if (died) {
                std::string kind = err.find("global-buffer-overflow") != std::string::npos ? "table-overread" : "child-died";
                res.violation("C20", std::string("C20:") + kind + ":" + c.name,
                              cs.str() + ": lookup left its table / crashed (" + kind + ")",
                              cs.str() + "\nchild status=" + std::to_string(st) + "\n" + err);
                continue;
            }
            if (v >= 0) res.count("accepted");
            if (v >= 0 && !listed)
                res.violation("C20", std::string("C20:accepts-unlisted:") + c.name + ":" + std::to_string(b),
                              cs.str() + " accepted although MQTT 5 does not list it for this packet", cs.str());
            if (v < 0 && must)
                res.violation("C20", std::string("C20:rejects-admissible:") + c.name + ":" + std::to_string(b),
                              cs.str() + " rejected although a Server may send it", cs.str());
            if (v >= 0 && v != b)
                res.violation("C20", std::string("C20:wrong-value:") + c.name + ":" + std::to_string(b),
                              cs.str() + " reported as " + std::to_string(v), cs.str());
            if (res.samples.size() < 3 && (b == 0x92 || b == 0x10 || b == 0xA3))
                res.sample("{\"category\": \"" + std::string(c.name) + "\", \"byte\": " + std::to_string(b) +
                           ", \"accepted\": " + (v >= 0 ? "true" : "false") + ", \"listed\": " + (listed ? "true" : "false") + "}");
        }
    }
    res.write(args.str("out", "/dev/stdout"));
    return res.violations.empty() ? 0 : 1;
}
