// Small utilities shared by all harness binaries: argument parsing, PRNG, hashing,
// JSON result files. No dependency on the library under test.
#pragma once
#include <csignal>
#include <cstdint>
#include <cstdio>
#include <cstdlib>
#include <cstring>
#include <map>
#include <set>
#include <string>
#include <vector>

#include <unistd.h>

extern "C" void __sanitizer_set_death_callback(void (*)(void)) __attribute__((weak));

namespace vu {

// The case being executed, printed as "CASE ..." on stdout if the process dies (sanitizer report, abort, terminate):
// the orchestration uses the last CASE line as the witness of a crash.
inline char g_case[4096] = "";
inline void set_case(const std::string& s) {
    size_t n = s.size() < sizeof g_case - 1 ? s.size() : sizeof g_case - 1;
    std::memcpy(g_case, s.data(), n); g_case[n] = 0;
}
inline void print_case_raw() {
    (void)!::write(1, "\nCASE ", 6); (void)!::write(1, g_case, std::strlen(g_case)); (void)!::write(1, "\n", 1);
}
inline void abort_handler(int) { print_case_raw(); signal(SIGABRT, SIG_DFL); raise(SIGABRT); }
inline void install_case_reporter() {
    if (__sanitizer_set_death_callback) __sanitizer_set_death_callback(print_case_raw);
    signal(SIGABRT, abort_handler);
}

struct Rng {
    uint64_t s;
    explicit Rng(uint64_t seed = 1) : s(seed * 0x9E3779B97F4A7C15ull + 0x1234567) {}
    uint64_t next() {
        uint64_t z = (s += 0x9E3779B97F4A7C15ull);
        z = (z ^ (z >> 30)) * 0xBF58476D1CE4E5B9ull;
        z = (z ^ (z >> 27)) * 0x94D049BB133111EBull;
        return z ^ (z >> 31);
    }
    // uniform in [0, n)
    uint64_t below(uint64_t n) { return n ? next() % n : 0; }
    // uniform in [a, b]
    int64_t range(int64_t a, int64_t b) { return a + (int64_t)below((uint64_t)(b - a + 1)); }
    bool chance(unsigned num, unsigned den) { return below(den) < num; }
    template <typename T> const T& pick(const std::vector<T>& v) { return v[below(v.size())]; }
};

inline uint64_t fnv(const void* p, size_t n, uint64_t h = 1469598103934665603ull) {
    auto b = static_cast<const unsigned char*>(p);
    for (size_t i = 0; i < n; ++i) { h ^= b[i]; h *= 1099511628211ull; }
    return h;
}
inline uint64_t fnv(const std::string& s, uint64_t h = 1469598103934665603ull) { return fnv(s.data(), s.size(), h); }
inline uint64_t mix(uint64_t h, uint64_t v) { return fnv(&v, sizeof v, h); }

inline std::string hex(const std::string& s, size_t max = 256) {
    static const char* d = "0123456789abcdef";
    std::string o;
    for (size_t i = 0; i < s.size() && i < max; ++i) {
        unsigned char c = (unsigned char)s[i];
        o += d[c >> 4]; o += d[c & 15];
        if (i + 1 < s.size()) o += ' ';
    }
    if (s.size() > max) o += "... (+" + std::to_string(s.size() - max) + " bytes)";
    return o;
}

inline std::string jesc(const std::string& s) {
    std::string o = "\"";
    for (unsigned char c : s) {
        switch (c) {
            case '"': o += "\\\""; break;
            case '\\': o += "\\\\"; break;
            case '\n': o += "\\n"; break;
            case '\r': o += "\\r"; break;
            case '\t': o += "\\t"; break;
            default:
                if (c < 0x20 || c >= 0x7f) { char b[8]; snprintf(b, sizeof b, "\\u%04x", c); o += b; }
                else o += (char)c;
        }
    }
    return o + "\"";
}

struct Args {
    std::map<std::string, std::string> kv;
    Args(int argc, char** argv) {
        for (int i = 1; i < argc; ++i) {
            std::string a = argv[i];
            if (a.rfind("--", 0) == 0) {
                std::string k = a.substr(2), v = "1";
                if (i + 1 < argc && std::strncmp(argv[i + 1], "--", 2) != 0) v = argv[++i];
                kv[k] = v;
            }
        }
    }
    std::string str(const std::string& k, const std::string& d = "") const {
        auto it = kv.find(k); return it == kv.end() ? d : it->second;
    }
    int64_t num(const std::string& k, int64_t d = 0) const {
        auto it = kv.find(k); return it == kv.end() ? d : std::strtoll(it->second.c_str(), nullptr, 0);
    }
    bool has(const std::string& k) const { return kv.count(k) != 0; }
    void shard(int& idx, int& n) const {
        idx = 0; n = 1;
        auto s = str("shard", "0/1");
        sscanf(s.c_str(), "%d/%d", &idx, &n);
        if (n < 1) n = 1;
    }
};

struct Violation { std::string prop, key, what, replay; };

// Result file written by every harness binary (one per shard).
struct Result {
    uint64_t evaluations = 0;
    uint64_t distinct_extra = 0;            // distinct cases counted without hashes (enumerations)
    std::set<uint64_t> hashes;              // distinct non-trivial case signatures
    size_t max_hashes = 400000;
    std::map<std::string, uint64_t> counters;
    std::map<std::string, uint64_t> maxima;
    std::vector<std::string> samples;       // already JSON (objects or strings)
    std::vector<Violation> violations;
    std::vector<std::string> notes;
    std::string harness_error;
    size_t max_violations = 40;

    void hash(uint64_t h) { if (hashes.size() < max_hashes) hashes.insert(h); }
    void count(const std::string& k, uint64_t n = 1) { counters[k] += n; }
    void maxi(const std::string& k, uint64_t v) { if (maxima[k] < v) maxima[k] = v; }
    void sample(const std::string& json, size_t cap = 4) { if (samples.size() < cap) samples.push_back(json); }
    void violation(const std::string& prop, const std::string& key, const std::string& what, const std::string& replay) {
        counters["violations_raw"]++;
        for (auto& v : violations) if (v.key == key && v.prop == prop) return;   // one witness per key
        if (violations.size() < max_violations) violations.push_back({prop, key, what, replay});
    }
    bool write(const std::string& path) const {
        FILE* f = fopen(path.c_str(), "w");
        if (!f) return false;
        fprintf(f, "{\n \"evaluations\": %llu,\n \"distinct_extra\": %llu,\n", (unsigned long long)evaluations,
                (unsigned long long)distinct_extra);
        fprintf(f, " \"hashes\": [");
        bool first = true;
        for (auto h : hashes) { fprintf(f, "%s\"%016llx\"", first ? "" : ",", (unsigned long long)h); first = false; }
        fprintf(f, "],\n \"counters\": {");
        first = true;
        for (auto& kv : counters) { fprintf(f, "%s%s: %llu", first ? "" : ", ", jesc(kv.first).c_str(), (unsigned long long)kv.second); first = false; }
        fprintf(f, "},\n \"maxima\": {");
        first = true;
        for (auto& kv : maxima) { fprintf(f, "%s%s: %llu", first ? "" : ", ", jesc(kv.first).c_str(), (unsigned long long)kv.second); first = false; }
        fprintf(f, "},\n \"samples\": [");
        first = true;
        for (auto& s : samples) { fprintf(f, "%s%s", first ? "" : ",\n  ", s.c_str()); first = false; }
        fprintf(f, "],\n \"violations\": [");
        first = true;
        for (auto& v : violations) {
            fprintf(f, "%s{\"prop\": %s, \"key\": %s, \"what\": %s, \"replay\": %s}", first ? "" : ",\n  ",
                    jesc(v.prop).c_str(), jesc(v.key).c_str(), jesc(v.what).c_str(), jesc(v.replay).c_str());
            first = false;
        }
        fprintf(f, "],\n \"notes\": [");
        first = true;
        for (auto& n : notes) { fprintf(f, "%s%s", first ? "" : ", ", jesc(n).c_str()); first = false; }
        fprintf(f, "],\n \"harness_error\": %s\n}\n", jesc(harness_error).c_str());
        fclose(f);
        return true;
    }
};

}  // namespace vu
