// BOOST_ASSERT is kept enabled (the shipped build uses NDEBUG) and routed here
// (-DBOOST_ENABLE_ASSERT_HANDLER). The simulator installs a hook that records an event;
// without a hook a failed assertion is fatal.
#include <cstdio>
#include <cstdlib>

namespace vu {
void (*assert_hook)(const char* expr, const char* file, long line) = nullptr;
}

namespace boost {
void assertion_failed(char const* expr, char const* function, char const* file, long line) {
    if (vu::assert_hook) { vu::assert_hook(expr, file, line); return; }
    fprintf(stderr, "BOOST_ASSERT failed: %s in %s at %s:%ld\n", expr, function, file, line);
    abort();
}
void assertion_failed_msg(char const* expr, char const* msg, char const* function, char const* file, long line) {
    if (vu::assert_hook) { vu::assert_hook(expr, file, line); return; }
    fprintf(stderr, "BOOST_ASSERT failed: %s (%s) in %s at %s:%ld\n", expr, msg, function, file, line);
    abort();
}
}  // namespace boost
