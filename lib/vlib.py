"""Orchestration for the /verif checks: incremental build from /repo's working tree,
sharded execution, result merging, known-findings matching, evidence files.

Python 3 standard library only.
"""
import concurrent.futures as cf
import fcntl
import hashlib
import json
import os
import re
import shlex
import subprocess
import sys
import time

VERIF = os.path.dirname(os.path.dirname(os.path.abspath(__file__)))
REPO = os.environ.get("VERIF_REPO", "/repo")
COV = os.environ.get("VERIF_COV") == "1"     # coverage build (bin/coverage): separate build tree, no evidence
BUILD = os.path.join(VERIF, ".build", "cov") if COV else os.path.join(VERIF, ".build")
SRC = os.path.join(VERIF, "src")
# evidence is only ever written for /repo itself; runs against scratch trees (VERIF_REPO) go elsewhere
EVID = os.path.join(VERIF, "evidence") if os.path.realpath(REPO) == "/repo" and not COV else os.path.join(BUILD, "evidence-scratch")
REPLAY = os.path.join(VERIF, "replay")
NCPU = os.cpu_count() or 8
# scratch trees build under their own lock and their own generated-header directory, so that bin/run_seeded -j N compiles
# in parallel (object names already contain the tree's path through the -I flag)
TREE_KEY = "" if os.path.realpath(REPO) == "/repo" else "-" + hashlib.sha256(os.path.realpath(REPO).encode()).hexdigest()[:10]
GEN = os.path.join(BUILD, "gen" + TREE_KEY)

CXX = "clang++-14"
BASE_FLAGS = [
    "-std=c++17", "-O1", "-gline-tables-only", "-fno-omit-frame-pointer",
    "-fsanitize=address,undefined", "-fno-sanitize-recover=all",
    "-fno-sanitize=object-size",
    "-Wno-deprecated-declarations",
    "-I", os.path.join(REPO, "include"), "-I", SRC, "-I", GEN,
    "-DBOOST_MQTT5_VERIF", "-DBOOST_ASIO_DISABLE_EPOLL",
    "-DBOOST_ENABLE_ASSERT_HANDLER",
]
LINK_FLAGS = ["-fsanitize=address,undefined", "-rdynamic", "-lpthread", "-ldl"]
if COV:
    BASE_FLAGS += ["-fprofile-instr-generate", "-fcoverage-mapping"]
    LINK_FLAGS += ["-fprofile-instr-generate"]

# ---------------------------------------------------------------------------------------------
# targets: name -> dict(sources=[...], flags=[...], link=[...])
TARGETS = {}


def target(name, sources, flags=(), link=(), nosan=False, cxx=None):
    TARGETS[name] = dict(sources=list(sources), flags=list(flags), link=list(link),
                         nosan=nosan, cxx=cxx)


class HarnessError(Exception):
    pass


def _sha(data):
    return hashlib.sha256(data).hexdigest()


def _file_sha(path, cache={}):
    try:
        st = os.stat(path)
    except OSError:
        return "missing"
    k = (path, st.st_mtime_ns, st.st_size)
    if k not in cache:
        with open(path, "rb") as f:
            cache[k] = _sha(f.read())
    return cache[k]


def _parse_depfile(path):
    try:
        txt = open(path).read()
    except OSError:
        return None
    txt = txt.replace("\\\n", " ")
    if ":" not in txt:
        return None
    deps = txt.split(":", 1)[1].split()
    return deps


def _relevant(dep):
    dep = os.path.realpath(dep)
    return dep.startswith(os.path.realpath(REPO) + "/") or dep.startswith(VERIF + "/")


def _obj_sig(cmd, deps):
    h = hashlib.sha256()
    h.update(" ".join(cmd).encode())
    for d in sorted(set(os.path.realpath(x) for x in deps if _relevant(x))):
        h.update(d.encode())
        h.update(_file_sha(d).encode())
    return h.hexdigest()


def _compile_one(src, flags, cxx):
    os.makedirs(os.path.join(BUILD, "obj"), exist_ok=True)
    tag = _sha((cxx + " " + " ".join(flags) + " " + src).encode())[:16]
    base = os.path.join(BUILD, "obj", os.path.basename(src).replace(".", "_") + "-" + tag)
    obj, dep, sig = base + ".o", base + ".d", base + ".sig"
    cmd = [cxx] + flags + ["-c", src, "-o", obj, "-MMD", "-MF", dep]
    deps = _parse_depfile(dep)
    if deps is not None and os.path.exists(obj) and os.path.exists(sig):
        if open(sig).read().strip() == _obj_sig(cmd, deps):
            return obj, False, 0.0
    t0 = time.time()
    p = subprocess.run(cmd, stdout=subprocess.PIPE, stderr=subprocess.STDOUT, text=True)
    if p.returncode != 0:
        raise HarnessError("compile failed: %s\n%s" % (" ".join(cmd), p.stdout[-6000:]))
    deps = _parse_depfile(dep) or [src]
    with open(sig, "w") as f:
        f.write(_obj_sig(cmd, deps))
    return obj, True, time.time() - t0


def gen_preincludes():
    """Header listing every non-library #include of /repo/include (std, Boost): the client TU includes it before
    the timer/clock tokens are redefined, so that no system header is parsed under the redefinition."""
    inc = set()
    root = os.path.join(REPO, "include")
    for dp, dn, fn in os.walk(root):
        for f in fn:
            if f in ("ssl.hpp", "websocket.hpp", "websocket_ssl.hpp"):
                continue
            for line in open(os.path.join(dp, f), errors="replace"):
                m = re.match(r"\s*#\s*include\s*<([^>]+)>", line)
                if m and not m.group(1).startswith("boost/mqtt5") and "beast" not in m.group(1) and "/ssl" not in m.group(1) and "openssl" not in m.group(1):
                    inc.add(m.group(1))
    txt = "// generated by lib/vlib.py from /repo/include\n#pragma once\n" + "".join("#include <%s>\n" % i for i in sorted(inc))
    d = GEN
    os.makedirs(d, exist_ok=True)
    p = os.path.join(d, "preincludes.hpp")
    if not os.path.exists(p) or open(p).read() != txt:
        open(p, "w").write(txt)


def build(names, verbose=True):
    """Builds the named targets from /repo's current working tree (incremental, content-hashed).
    Returns {name: exe path}."""
    os.makedirs(BUILD, exist_ok=True)
    lock = open(os.path.join(BUILD, ".lock" + TREE_KEY), "w")
    fcntl.flock(lock, fcntl.LOCK_EX)
    try:
        gen_preincludes()
        jobs = {}
        for n in names:
            t = TARGETS[n]
            cxx = t["cxx"] or CXX
            base = [f for f in BASE_FLAGS if not (t["nosan"] and f.startswith("-fsanitize") or
                                                   t["nosan"] and f.startswith("-fno-sanitize"))]
            for s in t["sources"]:
                src = s if os.path.isabs(s) else os.path.join(SRC, s)
                jobs[(src, tuple(base + t["flags"]), cxx)] = None
        t0 = time.time()
        with cf.ThreadPoolExecutor(max_workers=NCPU) as ex:
            futs = {ex.submit(_compile_one, k[0], list(k[1]), k[2]): k for k in jobs}
            for f in cf.as_completed(futs):
                k = futs[f]
                obj, rebuilt, dt = f.result()
                jobs[k] = obj
                if rebuilt and verbose:
                    print("[build] %s (%.0fs)" % (os.path.relpath(k[0], VERIF), dt), flush=True)
        exes = {}
        for n in names:
            t = TARGETS[n]
            cxx = t["cxx"] or CXX
            base = [f for f in BASE_FLAGS if not (t["nosan"] and f.startswith("-fsanitize") or
                                                   t["nosan"] and f.startswith("-fno-sanitize"))]
            objs = []
            for s in t["sources"]:
                src = s if os.path.isabs(s) else os.path.join(SRC, s)
                objs.append(jobs[(src, tuple(base + t["flags"]), cxx)])
            h = hashlib.sha256()
            for o in objs:
                h.update(_file_sha(o).encode())
            link = ([] if t["nosan"] else [LINK_FLAGS[0]]) + LINK_FLAGS[1:] + t["link"]
            h.update(" ".join(link).encode())
            os.makedirs(os.path.join(BUILD, "bin"), exist_ok=True)
            # one binary per content signature: checks that run concurrently against different trees (bin/try_patch,
            # bin/run_seeded -j N) must never execute each other's binary
            exe = os.path.join(BUILD, "bin", "%s-%s" % (n, h.hexdigest()[:16]))
            if not os.path.exists(exe):
                tmp = exe + ".tmp%d" % os.getpid()
                cmd = [cxx] + objs + ["-o", tmp] + link
                p = subprocess.run(cmd, stdout=subprocess.PIPE, stderr=subprocess.STDOUT, text=True)
                if p.returncode != 0:
                    raise HarnessError("link failed: %s\n%s" % (" ".join(cmd), p.stdout[-4000:]))
                os.replace(tmp, exe)
                if verbose:
                    print("[build] linked %s" % n, flush=True)
                # drop binaries of the same target that have not been used for six hours
                for f in os.listdir(os.path.join(BUILD, "bin")):
                    fp = os.path.join(BUILD, "bin", f)
                    try:
                        if f.startswith(n + "-") and fp != exe and time.time() - os.stat(fp).st_atime > 6 * 3600 and time.time() - os.stat(fp).st_mtime > 6 * 3600:
                            os.remove(fp)
                    except OSError:
                        pass
            else:
                os.utime(exe, None)
            # convenience link for interactive use (replay options); never used by the checks themselves
            try:
                lnk = os.path.join(BUILD, "bin", n)
                if os.path.islink(lnk) or os.path.exists(lnk):
                    os.remove(lnk)
                os.symlink(os.path.basename(exe), lnk)
            except OSError:
                pass
            exes[n] = exe
        if verbose and time.time() - t0 > 1:
            print("[build] done in %.0fs" % (time.time() - t0), flush=True)
        return exes
    finally:
        fcntl.flock(lock, fcntl.LOCK_UN)
        lock.close()


# ---------------------------------------------------------------------------------------------
SAN_ENV = {
    "ASAN_OPTIONS": "abort_on_error=0:detect_leaks=0:halt_on_error=1:exitcode=86:"
                    "allocator_may_return_null=1:detect_stack_use_after_return=0:"
                    "symbolize=1:quarantine_size_mb=16",
    "UBSAN_OPTIONS": "print_stacktrace=1:halt_on_error=1:exitcode=87",
    "ASAN_SYMBOLIZER_PATH": "/usr/bin/llvm-symbolizer-14",
}


def run_proc(cmd, timeout, env=None):
    e = dict(os.environ)
    e.update(SAN_ENV)
    if env:
        e.update(env)
    t0 = time.time()
    try:
        p = subprocess.run(cmd, stdout=subprocess.PIPE, stderr=subprocess.PIPE, timeout=timeout, env=e)
        return p.returncode, p.stdout.decode("utf-8", "replace"), p.stderr.decode("utf-8", "replace"), time.time() - t0
    except subprocess.TimeoutExpired as ex:
        out = (ex.stdout or b"").decode("utf-8", "replace")
        err = (ex.stderr or b"").decode("utf-8", "replace")
        return -999, out, err, time.time() - t0


def san_signature(stderr):
    """Normalised key of a sanitizer / crash report: kind + first frames inside boost/mqtt5."""
    kind = "crash"
    m = re.search(r"ERROR: AddressSanitizer: ([A-Za-z0-9_-]+)", stderr)
    if m:
        kind = "asan-" + m.group(1)
    else:
        m = re.search(r"runtime error: ([^\n]{0,80})", stderr)
        if m:
            kind = "ubsan-" + re.sub(r"[^a-z]+", "-", m.group(1).lower())[:50].strip("-")
        elif "terminate called" in stderr or "uncaught exception" in stderr.lower():
            kind = "uncaught-exception"
    frames = re.findall(r"#\d+ 0x[0-9a-f]+ in (.+?) (/[^\s:]+):(\d+)", stderr)
    where = ""
    for fn, path, line in frames:
        if "/boost/mqtt5/" in path:
            where = os.path.basename(path)
            break
    return kind + (":" + where if where else "")


def run_shards(exe, args, nshards, seed, timeout, outdir, retry=True, env=None):
    """Runs `exe args --seed S --shard i/n --out file` for i in 0..n-1 in parallel.
    Returns list of per-shard dicts (parsed JSON, plus 'crash' entries for abnormal exits)."""
    os.makedirs(outdir, exist_ok=True)
    results = [None] * nshards

    def one(i):
        out = os.path.join(outdir, "shard%d.json" % i)
        if os.path.exists(out):
            os.unlink(out)
        cmd = [exe] + args + ["--seed", str(seed), "--shard", "%d/%d" % (i, nshards), "--out", out]
        for attempt in range(2 if retry else 1):
            rc, so, se, dt = run_proc(cmd, timeout, env)
            if rc == -999 and attempt == 0 and retry:
                continue
            break
        res = None
        if os.path.exists(out):
            try:
                res = json.load(open(out))
            except Exception as e:  # truncated output of a crashed shard
                res = None
        if rc == -999:
            return dict(harness_error="shard %d timed out after %.0fs: %s" % (i, dt, " ".join(cmd)))
        if rc not in (0, 1) or res is None:
            # abnormal exit: sanitizer report, abort, uncaught exception -> a violation witness
            key = san_signature(se)
            last = ""
            m = re.findall(r"CASE ([^\n]+)", so[-20000:])
            if m:
                last = m[-1]
            return dict(crash=dict(key=key, rc=rc, cmd=" ".join(shlex.quote(c) for c in cmd),
                                   stderr=se[-12000:], stdout_tail=so[-3000:], last_case=last),
                        partial=res)
        res["_wall"] = dt
        return res

    with cf.ThreadPoolExecutor(max_workers=min(nshards, NCPU)) as ex:
        for i, r in enumerate(ex.map(one, range(nshards))):
            results[i] = r
    return results


# ---------------------------------------------------------------------------------------------
def load_known():
    p = os.path.join(VERIF, "known_findings.json")
    try:
        return json.load(open(p))
    except OSError:
        return {"findings": [], "fixed": []}


def schema_check(ev):
    try:
        import jsonschema  # optional
        schema = json.load(open("/root/.vp/EVIDENCE.schema.json"))
        jsonschema.validate(ev, schema)
    except ImportError:
        pass


class Check:
    """Accumulates the parts of one property check and renders the verdict."""

    def __init__(self, prop, tier, seed, level):
        self.prop, self.tier, self.seed, self.level = prop, tier, seed, level
        self.t0 = time.time()
        self.evaluations = 0
        self.distinct = 0
        self.hashes = {}
        self.counters = {}
        self.samples = []
        self.rules = []
        self.assumptions = []
        self.violations = []   # dict(key, what, replay_text)
        self.notes = []
        self.harness_errors = []
        self.exhaustive = None
        self.extra = {}

    def add_results(self, part, results, rule, max_samples=3):
        """Merges shard results of one part (engine run)."""
        self.rules.append("[%s] %s" % (part, rule))
        hs = self.hashes.setdefault(part, set())
        nsamp = 0
        for r in results:
            if r is None:
                self.harness_errors.append("%s: shard produced nothing" % part)
                continue
            if r.get("harness_error") and "evaluations" not in r:
                self.harness_errors.append("%s: %s" % (part, r["harness_error"]))
                continue
            if "crash" in r:
                c = r["crash"]
                self.violations.append(dict(
                    key="%s:%s:%s" % (self.prop, part, c["key"]),
                    what="process died (rc=%s) %s; last case: %s" % (c["rc"], c["key"], c["last_case"]),
                    replay_text="command: %s\nlast case: %s\n--- stdout tail ---\n%s\n--- stderr ---\n%s" % (
                        c["cmd"], c["last_case"], c["stdout_tail"], c["stderr"])))
                r = r.get("partial") or {}
            self.evaluations += int(r.get("evaluations", 0))
            for h in r.get("hashes", []):
                hs.add(h)
            self.distinct += int(r.get("distinct_extra", 0))
            for k, v in r.get("counters", {}).items():
                kk = part + "." + k
                self.counters[kk] = self.counters.get(kk, 0) + v
            for k, v in r.get("maxima", {}).items():
                kk = part + "." + k
                self.counters[kk] = max(self.counters.get(kk, 0), v)
            for s in r.get("samples", []):
                if nsamp < max_samples:
                    self.samples.append({"part": part, "case": s})
                    nsamp += 1
            for v in r.get("violations", []):
                if v.get("prop", self.prop) == self.prop:
                    self.violations.append(dict(key=v["key"], what=v.get("what", ""),
                                                replay_text=v.get("replay", "")))
                else:
                    self.notes.append("NOTE other-property alarm %s: %s" % (v["key"], v.get("what", "")))
            for n in r.get("notes", []):
                self.notes.append(n)
            if r.get("harness_error"):
                self.harness_errors.append("%s: %s" % (part, r["harness_error"]))

    def require(self, counter, minimum=1):
        if self.counters.get(counter, 0) < minimum:
            self.harness_errors.append(
                "inconclusive: relevance counter %s = %s (< %s): the workload never produced the "
                "situation the property talks about" % (counter, self.counters.get(counter, 0), minimum))

    def finish(self):
        known = load_known()
        kf = [f for f in known.get("findings", []) if f.get("property") == self.prop]
        distinct = self.distinct + sum(len(s) for s in self.hashes.values())
        os.makedirs(EVID, exist_ok=True)
        unknown, seen_known = [], {}
        for v in self.violations:
            hit = None
            for f in kf:
                if v["key"] == f["key"] or (f.get("key_prefix") and v["key"].startswith(f["key_prefix"])):
                    hit = f
                    break
            if hit:
                seen_known.setdefault(hit["key"], (hit, v))
            else:
                unknown.append(v)
        for n in self.notes[:20]:
            print(n)
        for k, (f, v) in seen_known.items():
            print("KNOWN-FINDING: property=%s %s [%s]" % (self.prop, f["what"], k))
        exit_code = 0
        printed = set()
        for v in unknown:
            if v["key"] in printed:
                continue
            printed.add(v["key"])
            d = os.path.join(REPLAY, self.prop)
            os.makedirs(d, exist_ok=True)
            path = os.path.join(d, re.sub(r"[^A-Za-z0-9_.-]+", "_", v["key"])[:120] + ".txt")
            with open(path, "w") as f:
                f.write("property: %s\nkey: %s\nwhat: %s\ntier: %s seed: %s\n\n%s\n" % (
                    self.prop, v["key"], v["what"], self.tier, self.seed, v["replay_text"]))
            print("VIOLATION property=%s replay=%s" % (self.prop, path))
            print("  key=%s  %s" % (v["key"], v["what"][:300]))
            exit_code = 1
        cov = {
            "evaluations": int(self.evaluations),
            "distinct_nontrivial": int(distinct),
            "rule": " || ".join(self.rules),
            "samples": self.samples[:12] if self.samples else [],
            "observed": self.counters,
        }
        if self.exhaustive is not None:
            cov["exhaustive"] = bool(self.exhaustive)
        cov.update(self.extra)
        ev = {
            "property_id": self.prop, "tier": self.tier, "seed": int(self.seed), "level": self.level,
            "coverage": cov, "assumptions": self.assumptions,
            "wall_s": round(time.time() - self.t0, 2),
            "violations": len(printed),
            "known_findings_seen": sorted(seen_known.keys()),
        }
        if exit_code == 0 and not self.harness_errors:
            if cov["evaluations"] < 1 or cov["distinct_nontrivial"] < 2 or not cov["samples"]:
                self.harness_errors.append("evidence would be invalid: evaluations=%d distinct_nontrivial=%d samples=%d" % (
                    cov["evaluations"], cov["distinct_nontrivial"], len(cov["samples"])))
        if self.harness_errors and exit_code == 0:
            for h in self.harness_errors[:10]:
                print("HARNESS: " + h)
            exit_code = 2
        if exit_code != 2:
            with open(os.path.join(EVID, self.prop + ".json"), "w") as f:
                json.dump(ev, f, indent=1, sort_keys=True)
                f.write("\n")
            try:
                schema_check(ev)
            except Exception as e:
                print("HARNESS: evidence does not validate: %s" % str(e)[:500])
                exit_code = 2 if exit_code == 0 else exit_code
        print("%s %s tier=%s seed=%s evaluations=%d distinct_nontrivial=%d wall=%.1fs" % (
            self.prop, {0: "HELD", 1: "VIOLATED", 2: "INCONCLUSIVE"}[exit_code], self.tier, self.seed,
            self.evaluations, distinct, time.time() - self.t0))
        return exit_code
