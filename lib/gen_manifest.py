#!/usr/bin/env python3
"""Regenerates MANIFEST.json from the table below (kept next to the checks so they cannot drift apart)."""
import json, os, sys
sys.path.insert(0, os.path.dirname(os.path.abspath(__file__)))
V = os.path.dirname(os.path.dirname(os.path.abspath(__file__)))
props = [json.loads(l) for l in open(os.path.join(V, "properties.jsonl"))]

ENGINES = [
    {"name": "rc_probe", "path": "src/probes/rc_probe.cpp", "serves_properties": ["C20"],
     "kind_free_text": "exhaustive sweep of reason-code lookups under ASan (tables with internal linkage), one forked child per input"},
    {"name": "valid_probe", "path": "src/probes/valid_probe.cpp", "serves_properties": ["C16"],
     "kind_free_text": "library validators vs reference recogniser over enumerated and generated strings, ASan+UBSan"},
    {"name": "pid_probe", "path": "src/probes/pid_probe.cpp", "serves_properties": ["C08"],
     "kind_free_text": "packet_id_allocator vs bitset model, exhaustive short sequences + exhaustion + random walks, ASan+UBSan"},
    {"name": "mutex_probe", "path": "src/probes/mutex_probe.cpp", "serves_properties": ["C11"],
     "kind_free_text": "async_mutex on a manually polled io_context vs FIFO model, exhaustive short sequences + random, ASan+UBSan"},
    {"name": "codec_probe", "path": "src/probes/codec_probe.cpp", "serves_properties": ["C17", "C18", "C19"],
     "kind_free_text": "library encoders/decoders vs independent reference codec (src/ref), guard-page placement of hostile packets, ASan+UBSan"},
    {"name": "simcheck", "path": "src/sim", "serves_properties": ["C01", "C02", "C03", "C04", "C05", "C06", "C07", "C08", "C09", "C10", "C11", "C12", "C13", "C14", "C15", "C16", "C17", "C18", "C19", "C20"],
     "kind_free_text": "the real mqtt_client instantiated on a simulated stream in virtual time (timer/clock token interposition, no library edit beyond the resolve hook), a protocol-level broker model on the reference codec, fault plans, crash-point and idle-point sweeps, event-history monitors; clang ASan+UBSan"},
]

# property -> (level category, level text, level note, technique, engine)
CLAIMS = {
    "C08": ("exploration",
            "runtime monitoring of the real allocator against a set model: all operation sequences up to a bound from small and near-full states, full exhaustion and wrap-around, long random walks; every step is checked (id != 0 unless full, id not in use, freed ids come back)",
            "bitset model is the specification; unit level (allocator) in this round, live-exchange uniqueness is added by the simulator part",
            "runtime monitoring: reference-model monitor over exhaustive short operation sequences + stress, ASan/UBSan", "pid_probe"),
    "C11": ("exploration",
            "runtime monitoring of the real async_mutex against a FIFO model over all interleavings of lock / unlock / per-waiter cancellation / cancel-all / handler execution up to a bound, plus random longer ones",
            "FIFO lock model is the specification; handler order inside io_context is asio's; unit level (the lock) in this round, single-flight connection attempts are added by the simulator part",
            "runtime monitoring: model-based monitor over exhaustive short schedules, ASan/UBSan", "mutex_probe"),
    "C16": ("exploration",
            "library validators compared with a reference recogniser on every byte string up to length 2 (quick) / 3 (thorough), every scalar value's encoding, near-code-point grids, length boundaries and generated compositions",
            "reference recogniser is the MQTT 5 rule; unit level (validators) in this round",
            "runtime monitoring: differential oracle over exhaustive short inputs + generated inputs, ASan/UBSan", "valid_probe"),
    "C17": ("exploration",
            "every packet the encoders produce for generated arguments (all property-presence subsets, boundary sizes) is parsed by an independent decoder and compared field by field with what was asked",
            "independent reference codec is trusted and self-checked",
            "runtime monitoring: independent-decoder oracle over enumerated/generated arguments, ASan/UBSan", "codec_probe"),
    "C18": ("exploration",
            "independent encoder output (all property-presence subsets, all short forms, boundary values) goes through the library decoders exactly as the client calls them; fields must be equal and re-encoding must preserve contents; plus in situ: on connections of the real client that carried only conformant broker packets, no packet may be answered as malformed",
            "independent reference codec is trusted and self-checked on every case",
            "runtime monitoring: round-trip differential oracle over enumerated/generated packets, ASan/UBSan", "codec_probe"),
    "C19": ("exploration",
            "hostile packet bodies (structured length-field sweeps, truncations, mutations, random bytes) are decoded flush against a PROT_NONE page under ASan/UBSan; structurally broken packets must be rejected, accepted ones must equal the reference decoding; a libFuzzer target with the same oracles; and the real client against hostile broker bytes in every phase (instead of CONNACK, after it, with requests outstanding, mid QoS 2 in both directions), each stream under three chunkings: no sanitizer report, exception, assertion or livelock, chunking-independent responses up to the client's DISCONNECT, no request completed without a well-formed acknowledgement in the hostile bytes, recovery within 90 virtual seconds",
            "guard page + clang sanitizers are the memory oracle; the simulator and the reference codec are the environment model",
            "runtime monitoring: guard-page + sanitizer oracle and differential oracle over structured hostile inputs", "codec_probe"),
    "C20": ("exploration",
            "every (packet category, byte) pair of the finite 9x256 input space is executed against the real lookup under ASan with guarded tables and compared with the MQTT 5 admission tables; exhaustive over inputs, still a runtime observation; plus the lookups at their call sites: 11 x 256 scenarios on the real client (every byte as the reason code of Server DISCONNECT, CONNACK, Server AUTH, SUBACK, UNSUBACK, each also as a surplus code, PUBACK, PUBREC, PUBCOMP, inbound PUBREL) judged through the logger, the completion handler's values and the client's next packet",
            "transcription of the MQTT 5 reason-code tables; clang ASan global red zones",
            "runtime monitoring: exhaustive input sweep under AddressSanitizer + reference-table oracle", "rc_probe"),
}

SIM_NOTE = "simulated transport and broker model are the environment model; virtual time via token interposition; asio handler order is FIFO"
SIM_TECH = "runtime monitoring: offline checker over the recorded wire/API history of the real client in a virtual-time simulated network, ASan/UBSan"
CLAIMS.update({
    "C01": ("exploration", "successful QoS 1/2 completions are checked against the broker-side history (request as sent, genuine final ack delivered before completion, handler values equal the ack's) over thousands of seeded schedules with faults, reordering, chunking, id collisions and forged acks at quiescent points", SIM_NOTE, SIM_TECH, "simcheck"),
    "C02": ("fault_enumeration", "every byte boundary of reference workloads is used as a crash point (both directions, plus 'delivered but reported failed'), crossed with outcomes of the next attempt; bounded-liveness oracle after a fault-free suffix of 120 virtual seconds; retransmission rule (outstanding publishes are on the next connection before any newer QoS>0 publish), also judged with a new publish placed at every idle point / handler boundary of sweep bases", SIM_NOTE + "; 'eventually' decided as 'within 120 virtual seconds'", SIM_TECH + "; exhaustive single-fault enumeration per workload", "simcheck"),
    "C03": ("exploration", "per-publish transmission histories (bytes, DUP, write results, PUBREL position) from crash-point sweeps and QoS 2 heavy seeded mixes are checked against the sender discipline", SIM_NOTE, SIM_TECH, "simcheck"),
    "C04": ("exploration", "the broker model sends tagged QoS 0/1/2 messages and retransmits like a conformant sender; acknowledgement and delivery histories are checked; four genuine defects of the current tree are recorded as known findings with exact keys", SIM_NOTE, SIM_TECH, "simcheck"),
    "C05": ("exploration", "terminal actions at every idle point of base scenarios; exactly-once / not-inline / drained-without-time-advance are observed directly (counting functors, io_context::stopped())", SIM_NOTE, SIM_TECH + "; enumerated interleaving points", "simcheck"),
    "C06": ("exploration", "wire order of PUBLISH packets per connection vs initiation order under bursts, throttling, out-of-order acks and reconnects", SIM_NOTE, SIM_TECH, "simcheck"),
    "C07": ("exploration", "open-exchange count at the client's edge vs the connection's Receive Maximum at every offered PUBLISH, plus a bounded-progress rule at idle points", SIM_NOTE, SIM_TECH, "simcheck"),
    "C09": ("exploration", "async_disconnect at every idle point of base scenarios: position and solitude of the DISCONNECT, 5.000 s bound in virtual time, silence afterwards", SIM_NOTE, SIM_TECH + "; enumerated interleaving points", "simcheck"),
    "C10": ("exploration", "CONNECT contents vs configuration (independent decoder), CONNACK gate, exact 5 s abandonment, rotation/back-off envelope over random configurations and outcome sequences", SIM_NOTE, SIM_TECH, "simcheck"),
    "C12": ("exploration", "PINGREQ deadlines and exact 1.5*K read timeout in virtual time over keep-alive values, Server Keep Alive overrides and silence patterns", SIM_NOTE, SIM_TECH, "simcheck"),
    "C13": ("exploration", "session_expired deliveries vs a three-line model replayed over the history", SIM_NOTE, SIM_TECH, "simcheck"),
    "C14": ("exploration", "as C01 for SUBACK/UNSUBACK, one reason code per topic", SIM_NOTE, SIM_TECH, "simcheck"),
    "C15": ("exploration", "all 64 capability combinations x boundary requests; broker-side check of every packet against the announced capabilities; refusal immediacy, code and silence on the application side; identifier-leak scenario", SIM_NOTE, SIM_TECH + "; exhaustive over capability on/off combinations", "simcheck"),
})
for _p, _extra in {"C08": "allocator unit level + wire-history uniqueness and a full exhaustion scenario through the real client",
                   "C11": "lock unit level + online single-flight monitor in the simulated transport",
                   "C16": "validator unit level + public API refusals/acceptances on a real, unconnected client",
                   "C17": "encoder unit level + every packet written by the real client in simulator workloads decoded in situ",
                   "C19": "decoder unit level + whole-client behaviour under hostile byte streams in four phases and three chunkings"}.items():
    c = CLAIMS[_p]
    CLAIMS[_p] = (c[0], c[1] + "; " + _extra, c[2].replace("; unit level (allocator) in this round, live-exchange uniqueness is added by the simulator part", "").replace("; unit level (the lock) in this round, single-flight connection attempts are added by the simulator part", "").replace("; unit level (validators) in this round", "").replace("; unit level (decoders) in this round", "") + "; " + SIM_NOTE, c[3] + " + " + SIM_TECH, c[4] + "+simcheck")

NOT_YET = "check not built yet in this round (simulator engine in progress, see DESIGN.md section 10); no other technique is substituted"

m = {
    "version": 1,
    "setup_cmd": "bin/setup",
    "hooks": {
        "guard": "BOOST_MQTT5_VERIF",
        "enable": "checks compile /repo/include with -DBOOST_MQTT5_VERIF; the harness supplies BOOST_MQTT5_VERIF_RESOLVE_BEGIN/END; the repository's own build never defines the guard",
        "baseline_off_cmd": "bin/baseline_off.sh",
        "source_commits": ["9911b66"],
        "add_only": True,
    },
    "engines": ENGINES,
    "checks": [],
    "not_applicable": [],
    "notes": "Technique family: runtime monitoring and sanitizers. See DESIGN.md. Repairs of genuine defects: /repo commits 51263be 0ede6c0 3c6a6ad 442a416 eb0b0f0 324dfe9 d28fa47 45f70e5 6c59ca2 5a7f607 e37e53d d3d9e4f 9559da3 e8ae73d 231cbe7 c4c85ad d7a5098 403e617 9877141 (known_findings.json, 'fixed'); recorded findings F6 F7 F9 F10 (known_findings.json, 'findings').",
}
for p in props:
    pid = p["id"]
    if pid in CLAIMS:
        cat, text, note, tech, eng = CLAIMS[pid]
        m["checks"].append({
            "property_id": pid,
            "quick_cmd": "bin/check %s --tier quick" % pid,
            "thorough_cmd": "bin/check %s --tier thorough" % pid,
            "evidence_file": "evidence/%s.json" % pid,
            "replay_cmd_template": "cat {path}",
            "engine": eng,
            "level_claimed": {"category": cat, "text": text, "design_ref": "DESIGN.md section 5, %s" % pid},
            "level_note": note,
            "technique": tech,
        })
    else:
        m["not_applicable"].append({"property_id": pid, "reason": NOT_YET})
json.dump(m, open(os.path.join(V, "MANIFEST.json"), "w"), indent=1)
print("MANIFEST.json: %d checks, %d not_applicable" % (len(m["checks"]), len(m["not_applicable"])))
