#!/usr/bin/env python3
"""Regenerates MANIFEST.json from the table below (kept next to the checks so they cannot drift apart)."""
import json, os, sys
sys.path.insert(0, os.path.dirname(os.path.abspath(__file__)))
V = os.path.dirname(os.path.dirname(os.path.abspath(__file__)))
props = [json.loads(l) for l in open(os.path.join(V, "properties.jsonl"))]

ENGINES = [
    {"name": "rc_probe", "path": "src/probes/rc_probe.cpp", "serves_properties": ["C20"],
     "kind_free_text": "exhaustive sweep of reason-code lookups under ASan (tables with internal linkage), one forked child per input"},
    {"name": "valid_probe", "path": "src/probes/valid_probe.cpp", "serves_properties": ["C16"],
     "kind_free_text": "library validators vs reference recogniser over enumerated and generated strings, ASan+UBSan"},
    {"name": "pid_probe", "path": "src/probes/pid_probe.cpp", "serves_properties": ["C08"],
     "kind_free_text": "packet_id_allocator vs bitset model, exhaustive short sequences + exhaustion + random walks, ASan+UBSan"},
    {"name": "mutex_probe", "path": "src/probes/mutex_probe.cpp", "serves_properties": ["C11"],
     "kind_free_text": "async_mutex on a manually polled io_context vs FIFO model, exhaustive short sequences + random, ASan+UBSan"},
    {"name": "codec_probe", "path": "src/probes/codec_probe.cpp", "serves_properties": ["C17", "C18", "C19"],
     "kind_free_text": "library encoders/decoders vs independent reference codec (src/ref), guard-page placement of hostile packets, ASan+UBSan"},
]

# property -> (level category, level text, level note, technique, engine)
CLAIMS = {
    "C08": ("exploration",
            "runtime monitoring of the real allocator against a set model: all operation sequences up to a bound from small and near-full states, full exhaustion and wrap-around, long random walks; every step is checked (id != 0 unless full, id not in use, freed ids come back)",
            "bitset model is the specification; unit level (allocator) in this round, live-exchange uniqueness is added by the simulator part",
            "runtime monitoring: reference-model monitor over exhaustive short operation sequences + stress, ASan/UBSan", "pid_probe"),
    "C11": ("exploration",
            "runtime monitoring of the real async_mutex against a FIFO model over all interleavings of lock / unlock / per-waiter cancellation / cancel-all / handler execution up to a bound, plus random longer ones",
            "FIFO lock model is the specification; handler order inside io_context is asio's; unit level (the lock) in this round, single-flight connection attempts are added by the simulator part",
            "runtime monitoring: model-based monitor over exhaustive short schedules, ASan/UBSan", "mutex_probe"),
    "C16": ("exploration",
            "library validators compared with a reference recogniser on every byte string up to length 2 (quick) / 3 (thorough), every scalar value's encoding, near-code-point grids, length boundaries and generated compositions",
            "reference recogniser is the MQTT 5 rule; unit level (validators) in this round",
            "runtime monitoring: differential oracle over exhaustive short inputs + generated inputs, ASan/UBSan", "valid_probe"),
    "C17": ("exploration",
            "every packet the encoders produce for generated arguments (all property-presence subsets, boundary sizes) is parsed by an independent decoder and compared field by field with what was asked",
            "independent reference codec is trusted and self-checked",
            "runtime monitoring: independent-decoder oracle over enumerated/generated arguments, ASan/UBSan", "codec_probe"),
    "C18": ("exploration",
            "independent encoder output (all property-presence subsets, all short forms, boundary values) goes through the library decoders exactly as the client calls them; fields must be equal and re-encoding must preserve contents",
            "independent reference codec is trusted and self-checked on every case",
            "runtime monitoring: round-trip differential oracle over enumerated/generated packets, ASan/UBSan", "codec_probe"),
    "C19": ("exploration",
            "hostile packet bodies (structured length-field sweeps, truncations, mutations, random bytes) are decoded flush against a PROT_NONE page under ASan/UBSan; structurally broken packets must be rejected, accepted ones must equal the reference decoding",
            "guard page + clang sanitizers are the memory oracle; unit level (decoders) in this round",
            "runtime monitoring: guard-page + sanitizer oracle and differential oracle over structured hostile inputs", "codec_probe"),
    "C20": ("exploration",
            "every (packet category, byte) pair of the finite 9x256 input space is executed against the real lookup under ASan with guarded tables and compared with the MQTT 5 admission tables; exhaustive over inputs, still a runtime observation",
            "transcription of the MQTT 5 reason-code tables; clang ASan global red zones",
            "runtime monitoring: exhaustive input sweep under AddressSanitizer + reference-table oracle", "rc_probe"),
}

NOT_YET = "check not built yet in this round (simulator engine in progress, see DESIGN.md section 10); no other technique is substituted"

m = {
    "version": 1,
    "setup_cmd": "bin/setup",
    "hooks": {
        "guard": "BOOST_MQTT5_VERIF",
        "enable": "checks compile /repo/include with -DBOOST_MQTT5_VERIF; the harness supplies BOOST_MQTT5_VERIF_RESOLVE_BEGIN/END; the repository's own build never defines the guard",
        "baseline_off_cmd": "bin/baseline_off.sh",
        "source_commits": ["9911b66"],
        "add_only": True,
    },
    "engines": ENGINES,
    "checks": [],
    "not_applicable": [],
    "notes": "Technique family: runtime monitoring and sanitizers. See DESIGN.md. Repairs of genuine defects: /repo commits 51263be 0ede6c0 3c6a6ad 442a416 eb0b0f0 324dfe9 (known_findings.json, 'fixed').",
}
for p in props:
    pid = p["id"]
    if pid in CLAIMS:
        cat, text, note, tech, eng = CLAIMS[pid]
        m["checks"].append({
            "property_id": pid,
            "quick_cmd": "bin/check %s --tier quick" % pid,
            "thorough_cmd": "bin/check %s --tier thorough" % pid,
            "evidence_file": "evidence/%s.json" % pid,
            "replay_cmd_template": "cat {path}",
            "engine": eng,
            "level_claimed": {"category": cat, "text": text, "design_ref": "DESIGN.md section 5, %s" % pid},
            "level_note": note,
            "technique": tech,
        })
    else:
        m["not_applicable"].append({"property_id": pid, "reason": NOT_YET})
json.dump(m, open(os.path.join(V, "MANIFEST.json"), "w"), indent=1)
print("MANIFEST.json: %d checks, %d not_applicable" % (len(m["checks"]), len(m["not_applicable"])))
