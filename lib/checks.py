"""Property checks: which engines run for which property, with what budgets."""
import os
import sys
import tempfile
import shutil

import vlib
from vlib import Check, HarnessError, target, build, run_shards

# ------------------------------------------------------------------------------------------ targets
target("rc_probe", ["probes/rc_probe.cpp"])
target("valid_probe", ["probes/valid_probe.cpp", "ref/refcodec.cpp"])
target("codec_probe", ["probes/codec_probe.cpp", "ref/refcodec.cpp", "common/assert_handler.cpp"])
target("fuzz_decoders", ["probes/codec_probe.cpp", "ref/refcodec.cpp", "common/assert_handler.cpp"], flags=["-DVERIF_FUZZ", "-fsanitize=fuzzer-no-link"], link=["-fsanitize=fuzzer"])
target("pid_probe", ["probes/pid_probe.cpp", "common/assert_handler.cpp"])
target("mutex_probe", ["probes/mutex_probe.cpp", "common/assert_handler.cpp"])

SIM_SOURCES = ["sim/simcheck.cpp", "sim/families.cpp", "sim/monitors.cpp", "sim/driver.cpp", "sim/world.cpp", "sim/broker.cpp",
               "sim/client_impl.cpp", "sim/interpose.cpp", "ref/refcodec.cpp", "common/assert_handler.cpp"]
target("simcheck", SIM_SOURCES)

ALL_TARGETS = lambda: list(vlib.TARGETS.keys())


def setup():
    try:
        build(ALL_TARGETS())
    except HarnessError as e:
        print("HARNESS: " + str(e))
        return 2
    return 0


def _tmp(prop):
    d = os.path.join(vlib.BUILD, "run", "%s-%d" % (prop, os.getpid()))
    os.makedirs(d, exist_ok=True)
    return d


# ------------------------------------------------------------------------------------------ C20
def c20(tier, seed):
    ck = Check("C20", tier, seed, "exploration")
    exe = build(["rc_probe"])["rc_probe"]
    d = _tmp("C20")
    res = run_shards(exe, [], 16, seed, 600, d)
    ck.add_results("rc_probe", res,
                   "all 9 reason-code categories x 256 byte values, one forked ASan child per pair, tables compiled "
                   "with internal linkage so ASan guards them; oracle: accepted => listed by MQTT 5 for that packet, "
                   "server-sendable => accepted, accepted value == input byte, child exits cleanly. distinct = "
                   "(category, byte) pairs evaluated; non-trivial = every pair (each is a distinct input of the finite space)")
    ck.exhaustive = True
    ck.assumptions += ["reference admission tables transcribed from OASIS MQTT 5.0 tables 2-6, 3.2.2.2, 3.4.2.1, 3.9.3, 3.11.3, 3.14.2.1, 3.15.2.1",
                       "pairs listed by MQTT 5 only for client-sent packets (DISCONNECT 0x04, AUTH 0x19) or only in table 2-6 (DISCONNECT 0x8C) are don't-care",
                       "clang 14 ASan red zones around internal-linkage globals"]
    if ck.evaluations != 9 * 256 and not ck.violations:
        ck.harness_errors.append("expected 2304 pairs, evaluated %d" % ck.evaluations)
    shutil.rmtree(d, ignore_errors=True)
    # the lookups at their call sites: every byte as the reason code of a Server DISCONNECT, of the CONNACK and of a Server AUTH
    _sim_part(ck, "C20", tier, seed,
              "[sim] in situ: 11 x 256 scenarios on the real client: every byte as the reason code of a Server DISCONNECT, of the CONNACK, of a "
              "Server AUTH, and - with a silent broker, so that the scripted packet is the only acknowledgement - of SUBACK, SUBACK with a surplus "
              "code, UNSUBACK, UNSUBACK with a surplus code, PUBACK, PUBREC, PUBCOMP and of the PUBREL of an inbound QoS 2 message; oracle: a code a "
              "Server may send is acted upon and reported (logger / completion handler / PUBREL / PUBCOMP answer) with exactly that value, a byte MQTT 5 "
              "does not list for the packet never takes part in a successful completion, a refusing CONNACK never establishes the connection")
    ck.require("sim.c20_insitu_cases", 2816)
    ck.require("sim.c20_insitu_sendable", 80)
    return ck.finish()


def _probe_part(ck, name, tier, seed, rule, shards=16, timeout=1800, extra=()):
    exe = build([name])[name]
    d = _tmp(ck.prop + "-" + name)
    res = run_shards(exe, ["--tier", tier] + list(extra), shards, seed, timeout, d)
    ck.add_results(name, res, rule)
    shutil.rmtree(d, ignore_errors=True)


# ------------------------------------------------------------------------------------------ C16
def c16(tier, seed):
    ck = Check("C16", tier, seed, "exploration")
    _probe_part(ck, "valid_probe", tier, seed,
                "validate_mqtt_utf8 / validate_topic_name / validate_topic_alias_name / validate_topic_filter / "
                "validate_shared_topic_filter vs a reference recogniser written from Unicode table 3-7 and MQTT 5 1.5.4/4.7: "
                "every byte string of length <= %d (alone and, up to 2 bytes, inside a topic level), the canonical encoding of every "
                "scalar value, every lead byte x second byte x boundary continuation bytes, lengths around 65535, seeded "
                "compositions of / + # $share and UTF-8 fragments. distinct_nontrivial = enumerated inputs that are not "
                "plain alphanumeric ASCII (short family) + code-point encodings longer than the short family + verdict classes"
                % (3 if tier == "thorough" else 2))
    ck.assumptions += ["reference recogniser (src/ref/refcodec.cpp: utf8_class, topic_name_ok, topic_filter_ok, shared_filter_ok) is the MQTT 5 rule",
                       "control characters and non-characters count as not well-formed, as the property statement says",
                       "don't-care: payloads flagged as UTF-8, $share filters given to unsubscribe"]
    _sim_part(ck, "C16", tier, seed,
              "public API on a real client that cannot connect: 12 requests per scenario composed from well-formed and ill-formed fragments "
              "(publish topic, Content Type / Response Topic / User Property strings, payload declared UTF-8, subscribe and $share filters, "
              "Subscription Identifier bounds, unsubscribe filters); the reference recogniser decides; refused requests must complete at the same "
              "virtual instant, not inside the call, with the documented code and nothing on the wire; well-formed ones must stay pending. " + SHAPE)
    ck.require("valid_probe.class_UNFs")
    ck.require("valid_probe.class_unfs")
    ck.require("sim.api_invalid_requests", 100)
    ck.require("sim.api_valid_requests", 100)
    return ck.finish()


# ------------------------------------------------------------------------------------------ C08
def c08(tier, seed):
    ck = Check("C08", tier, seed, "exploration")
    _probe_part(ck, "pid_probe", tier, seed,
                "packet_id_allocator vs a bitset model: all sequences over {allocate, free oldest, free newest, free middle} up to "
                "length %d from 7 small pre-filled states, all sequences up to length %d from 65533/65534/65535 ids in use, "
                "exhaustion + release in 5 orders + re-exhaustion, long random walks; oracle after every step: never 0 unless "
                "65535 in use, never an id in use, every freed id allocatable again. distinct_nontrivial = distinct abstract "
                "allocator states reached (ids in use + occupancy of the first/last 64 ids)" % ((11, 5) if tier == "thorough" else (9, 3)))
    _sim_part(ck, "C08", tier, seed,
              "real client: seeded mixes with 5-40 publishes, subscribes, unsubscribes, inbound traffic and faults; monitor over the wire history: an "
              "identifier offered in PUBLISH(QoS>0)/SUBSCRIBE/UNSUBSCRIBE is never 0 and never held by another operation whose handler has not run "
              "yet; plus one exhaustion scenario: 65535 QoS 1 publishes against a silent broker all get identifiers, the next publish and subscribe "
              "get pid_overrun, and after one exchange completes a new QoS 2 publish completes. " + SHAPE)
    ck.require("pid_probe.overruns")
    ck.require("pid_probe.exhaustion_runs")
    ck.require("sim.exhaustion_scenarios")
    if ck.counters.get("sim.max_ids_in_use", 0) < 65535:
        ck.harness_errors.append("inconclusive: the exhaustion scenario never had 65535 identifiers in use")
    return ck.finish()


# ------------------------------------------------------------------------------------------ C11
def c11(tier, seed):
    ck = Check("C11", tier, seed, "exploration")
    _probe_part(ck, "mutex_probe", tier, seed,
                "async_mutex on a manually polled io_context vs a FIFO model: all sequences up to length %d over {lock, lock with "
                "cancellation slot, unlock by holder, signal oldest / newest slot, cancel(), run one handler, run all}, plus seeded "
                "longer sequences; oracle: success only for the waiter the model made pending, never two holders, "
                "operation_aborted only for cancelled waiters, exactly one completion each (also after destruction), none inside "
                "an initiating call, is_locked() equals the model. distinct_nontrivial = distinct model-state trajectories"
                % (8 if tier == "thorough" else 6))
    _sim_part(ck, "C11", tier, seed,
              "real client with keep-alive 2 s, slow acks (sentry timeouts), write latency, up to 3 connection faults and 3 bad reconnect attempts so "
              "that read failure, write failure, keep-alive timeout, sentry DISCONNECT and async_shutdown coincide; plus cancel() and "
              "cancel->run->cancel at enumerated idle points; monitor (online in the simulated transport): when a connect or handshake i/o is "
              "initiated no other connection is still busy with its handshake, no name resolution is in flight, resolutions never overlap, and "
              "after cancel() no connect/resolve starts before the next async_run. " + SHAPE)
    ck.require("mutex_probe.grants")
    ck.require("mutex_probe.aborts")
    ck.require("sim.scenarios_with_reconnects", 100)
    ck.require("sim.stream_triggers_judged", 50)
    return ck.finish()


# ------------------------------------------------------------------------------------------ C17 / C18 / C19
def _fuzz_part(ck, tier, seed):
    """Coverage-guided fuzzing (libFuzzer) of the same decoder harness: 16 independent jobs, fixed number of executions."""
    import re, subprocess, glob
    exes = build(["fuzz_decoders", "codec_probe"])
    d = _tmp("C19-fuzz")
    corpus = os.path.join(d, "corpus"); os.makedirs(corpus, exist_ok=True)
    vlib.run_proc([exes["codec_probe"], "--mode", "corpus", "--dir", corpus, "--seed", str(seed), "--out", os.path.join(d, "corpus.json")], 120)
    runs = 400000 if tier == "thorough" else 25000
    jobs = []
    for i in range(16):
        art = os.path.join(d, "art%d" % i); os.makedirs(art, exist_ok=True)
        cdir = os.path.join(d, "c%d" % i); shutil.copytree(corpus, cdir)
        cmd = [exes["fuzz_decoders"], "-runs=%d" % runs, "-seed=%d" % (seed * 100 + i + 1), "-max_len=600", "-timeout=20", "-rss_limit_mb=4096",
               "-artifact_prefix=%s/" % art, "-print_final_stats=1", cdir]
        jobs.append((i, art, cmd))
    import concurrent.futures as cf
    def one(j):
        i, art, cmd = j
        rc, so, se, dt = vlib.run_proc(cmd, 3000)
        return i, art, rc, se
    total = 0; cov = 0; feats = 0
    with cf.ThreadPoolExecutor(max_workers=16) as ex:
        for i, art, rc, se in ex.map(one, jobs):
            m = re.search(r"stat::number_of_executed_units:\s*(\d+)", se)
            n = int(m.group(1)) if m else 0
            total += n
            for mm in re.finditer(r"cov: (\d+) ft: (\d+)", se):
                cov = max(cov, int(mm.group(1))); feats = max(feats, int(mm.group(2)))
            if rc != 0:
                arts = glob.glob(os.path.join(art, "*"))
                data = open(arts[0], "rb").read() if arts else b""
                m = re.search(r"FUZZ-VIOLATION key=(\S+) what=([^\n]*)", se)
                key = m.group(1) if m else "C19:fuzz:" + vlib.san_signature(se)
                what = (m.group(2) if m else "fuzz target died: " + vlib.san_signature(se)) + " | input: " + data[:80].hex(" ")
                ck.violations.append(dict(key=key, what=what, replay_text="input (hex): %s\n\n%s" % (data.hex(" "), se[-6000:])))
            if rc == -999:
                ck.harness_errors.append("fuzz job %d timed out" % i)
    ck.evaluations += total
    ck.counters["fuzz.executions"] = total
    ck.counters["fuzz.coverage_edges"] = cov
    ck.counters["fuzz.features"] = feats
    ck.distinct += feats      # libFuzzer features (edge x hit-count buckets) reached by the best job = distinct behaviours of the decoders
    ck.rules.append("[fuzz] libFuzzer (coverage guided, 16 jobs x %d executions, seeded with well-formed server packets of every type) on the decoder "
                    "harness of codec_probe: same guard-page / sanitizer / reference-differential oracles; distinct = libFuzzer features of the best job" % runs)
    ck.samples.append({"part": "fuzz", "case": {"jobs": 16, "runs_per_job": runs, "executions": total, "coverage_edges": cov}})
    shutil.rmtree(d, ignore_errors=True)
    if total < runs:
        ck.harness_errors.append("fuzz target executed only %d inputs" % total)


def c17(tier, seed):
    ck = Check("C17", tier, seed, "exploration")
    _probe_part(ck, "codec_probe", tier, seed,
                "library encoders (CONNECT, PUBLISH, PUBACK, PUBREC, PUBREL, PUBCOMP, SUBSCRIBE, UNSUBSCRIBE, PINGREQ, DISCONNECT, AUTH) "
                "fed with generated arguments: every present/absent subset of each type's properties (incl. Will properties), "
                "strings of length 0/1/127/128/16383/16384/65535, payloads across variable-byte-integer boundaries, up to 300 user "
                "properties, up to 2000 topics; oracle: independent decoder accepts, consumes exactly Remaining Length, flags and "
                "property placement legal, decoded fields == supplied values. distinct_nontrivial = distinct packet shapes "
                "(type, property-presence mask, QoS/DUP/retain/will flags, size class of Remaining Length, list-size class)",
                extra=["--mode", "c17"])
    ck.assumptions += ["reference codec src/ref/refcodec.cpp (written from the OASIS text, no boost/mqtt5 include) is the MQTT 5 rule",
                       "binary fields above 65535 bytes are outside the quantifier"]
    _sim_part(ck, "C17", tier, seed,
              "in situ: every packet the real client writes in seeded workloads (publish/subscribe/unsubscribe mixes with all property "
              "combinations, inbound QoS 1/2 traffic producing PUBACK/PUBREC/PUBCOMP, random CONNECT configurations with Will and "
              "authenticator AUTH packets, DISCONNECTs, PINGREQs) is decoded by the independent codec at the moment it is offered to the "
              "transport: must be well formed with no protocol issue. " + SHAPE)
    ck.require("codec_probe.presence_subsets")
    ck.require("sim.client_packets_decoded", 1000)
    ck.require("sim.reauthentications_started", 10)
    return ck.finish()


def c18(tier, seed):
    ck = Check("C18", tier, seed, "exploration")
    _probe_part(ck, "codec_probe", tier, seed,
                "reference encoder -> library decoders (decode_fixed_header + the per-type decoders exactly as the client calls "
                "them) -> equal fields -> library encoder -> reference decoder -> equal contents, for CONNACK, PUBLISH, PUBACK, "
                "PUBREC, PUBREL, PUBCOMP, SUBACK, UNSUBACK, DISCONNECT, AUTH: every property-presence subset per type (2^17 for "
                "CONNACK), every short form, repeated User Properties, several Subscription Identifiers, boundary sizes. "
                "distinct_nontrivial = distinct packet shapes as for C17",
                extra=["--mode", "c18"])
    ck.assumptions += ["reference codec is self-checked on every generated packet (encode then decode must be the identity), a failed self-check is a harness error"]
    ck.require("codec_probe.presence_subsets")
    ck.require("codec_probe.short_forms")
    _sim_part(ck, "C18", tier, seed,
              "[sim] in situ: the real client against the conformant broker model (every acknowledgement shape incl. short forms, "
              "reason strings, user properties, per-topic refusals; inbound PUBLISHes with every property; CONNACKs with capabilities); "
              "on a connection that carried only well-formed conformant packets within the client's receive limit the client must "
              "never answer with a DISCONNECT 0x81/0x82 'Malformed ...'")
    ck.require("sim.conformant_packets_delivered", 5000)
    return ck.finish()


def c19(tier, seed):
    ck = Check("C19", tier, seed, "exploration")
    _probe_part(ck, "codec_probe", tier, seed,
                "server packets with every length-bearing field (Remaining Length, Property Length, every string/binary length, "
                "every variable byte integer) set to 0,1,2,true-1,true+1,true+2,127,128,16383,16384,max-1,max; every truncation of "
                "the body; byte-level mutations; random bytes - decoded by the library's decoders with the packet body ending "
                "at a PROT_NONE page. Oracles: no fault / sanitizer report; structurally broken packets (truncated fields, property "
                "length beyond the packet, unknown or misplaced property) are rejected; packets the reference accepts decode to "
                "the same contents. distinct_nontrivial = distinct (control byte, library verdict, reference verdict + error class)",
                extra=["--mode", "c19"])
    ck.assumptions += ["don't-care (no verdict): duplicate single-valued properties, non-minimal variable byte integers, ill-formed UTF-8 in "
                       "received strings, reserved flag bits, packet id 0, trailing bytes after the property list, absent Property Length",
                       "unit level only in this round: framing, handshake and whole-client behaviour under hostile bytes are decided by the simulator part when present"]
    _fuzz_part(ck, tier, seed)
    _sim_part(ck, "C19", tier, seed,
              "real client vs hostile broker bytes in four phases (instead of CONNACK, right after CONNACK, with requests awaiting replies, mid "
              "QoS 2): structured length-field mutations and byte mutations of every server packet type, aimed at outstanding packet ids; each "
              "stream is replayed under three chunkings (one read, single bytes, random cuts) at one virtual instant; oracles: no sanitizer report, "
              "no exception out of poll(), no assertion, no handler livelock, no request completing successfully while the silent broker's hostile bytes contain no well-formed "
              "acknowledgement of its kind with its packet id, listed reason codes and one code per topic (acknowledgements whose only defect is an unlisted "
              "or surplus reason code are generated on purpose), identical client responses up to its DISCONNECT whatever the chunking, and a publish issued afterwards completes within 90 "
              "virtual seconds. " + SHAPE)
    ck.require("codec_probe.length_field_mutations")
    ck.require("codec_probe.lib_rejected")
    ck.require("sim.hostile_runs", 100)
    ck.require("sim.chunking_comparisons", 50)
    ck.require("sim.recovery_publishes_acknowledged", 500)
    ck.require("sim.requests_exposed_to_hostile_acknowledgements", 500)
    return ck.finish()


# ------------------------------------------------------------------------------------------ simulator based
SIM_ASSUME = [
    "simulated transport (src/sim/world.cpp) follows the contracts of a real asio stream: posted completions, per-operation cancellation, close() aborts pending operations, FIFO broker output",
    "broker model (src/sim/broker.cpp) on the independent reference codec is MQTT 5 conformant unless a workload says hostile",
    "virtual time: the library's five steady_timers and its system_clock read are redirected by token interposition in the harness TU (no source change); name resolution is interposed at link level",
    "handler order inside one io_context is asio's FIFO; schedules vary through event timing, chunking, fault placement and enumerated idle points",
]


def _sim_part(ck, prop, tier, seed, rule, timeout=3000):
    exe = build(["simcheck"])["simcheck"]
    d = _tmp(prop + "-sim")
    res = run_shards(exe, ["--prop", prop, "--tier", tier], 16, seed, timeout, d)
    ck.add_results("sim", res, rule)
    for a in SIM_ASSUME:
        if a not in ck.assumptions:
            ck.assumptions.append(a)
    shutil.rmtree(d, ignore_errors=True)


SHAPE = ("distinct_nontrivial = distinct abstract traces (hash over the sequence of API initiations/completions with success flag, "
         "connect results, faults, closes, write results, CONNACK outcomes, terminal actions and the type/kind/DUP/connection of every packet)")


def c01(tier, seed):
    ck = Check("C01", tier, seed, "exploration")
    _sim_part(ck, "C01", tier, seed,
              "real client vs conformant broker in virtual time: seeded mixes of QoS 1/2 publishes with all PUBLISH property combinations and payloads "
              "up to 70 kB, inbound QoS 0/1/2 traffic sharing packet-id numbers, ack delays/reordering, three chunkings, connection faults at random "
              "byte offsets, refused/hung/silent reconnect attempts, sessions kept or lost; monitor: a successful completion needs (a) every "
              "transmission equal to the call, received by the broker, (b) a genuine final ack for that packet id generated in response and fully "
              "delivered before the completion, (c) handler rc/props equal to a delivered genuine ack, (d) one ack completes one operation. " + SHAPE)
    ck.require("sim.pub_success_completions", 100)
    ck.require("sim.publish_retransmissions")
    return ck.finish()


def c02(tier, seed):
    ck = Check("C02", tier, seed, "fault_enumeration")
    _sim_part(ck, "C02", tier, seed,
              "crash-point enumeration: for reference workloads (QoS 1+2 publish; subscribe/unsubscribe; inbound QoS 2 alongside; Receive Maximum 1; "
              "delayed acks; mixed) every byte boundary of the first connection in both directions is a connection reset (prefix delivered, batch "
              "failed), plus 'batch delivered, write reported failed' at every client byte, each crossed with outcomes of the next attempt "
              "(none / CONNACK 0x88 quick; + refused, silent thorough; thorough adds a grid of second faults on the following connection), plus seeded "
              "multi-fault mixes; bounded liveness oracle: 120 virtual seconds after the last scripted event every accepted, uncancelled publish "
              "(QoS 1/2), subscribe, unsubscribe has completed exactly once without error, never with a transport error, all transmissions of one "
              "request carry one packet id; retransmission rule ('a message whose acknowledgement is outstanding is retransmitted on the next connection'): "
              "at the moment a new QoS>0 PUBLISH is first transmitted on a connection, every older, still outstanding QoS>0 publish that was transmitted on an "
              "earlier connection has been retransmitted on it; for this rule a new publish is additionally placed at every idle point and handler boundary of "
              "sweep bases with connection losses (e.g. between a transport swap and the resend pass). " + SHAPE)
    ck.assumptions.append("'eventually' is decided as: completed within 120 virtual seconds of fault-free suffix (16.5 s back-off + 5 s resolve + 5 s handshake + 20 s reply age + 3 s sentry period + keep-alive margin)")
    ck.require("sim.crash_points_fired", 100)
    ck.require("sim.scenarios_with_2plus_no_reply_disconnects", 10)
    ck.require("sim.retransmitted_requests")
    ck.require("sim.outstanding_publishes_judged_at_new_publish", 500)
    if ck.counters.get("sim.crash_points_run", 0) != ck.counters.get("sim.crash_points_total", -1) // 16 * 0 + ck.counters.get("sim.crash_points_run", 0):
        pass
    ck.extra["crash_points_covered"] = ck.counters.get("sim.crash_points_run", 0)
    return ck.finish()


def c03(tier, seed):
    ck = Check("C03", tier, seed, "exploration")
    _sim_part(ck, "C03", tier, seed,
              "crash-point sweep over reference workloads + QoS 2 heavy seeded mixes with Receive Maximum 1-3; monitor per publish: all PUBLISH "
              "transmissions byte-identical except bit 3 of byte 0 and one packet id; first DUP=0; DUP=1 iff an earlier transmission's write batch had "
              "been reported successful; after the first PUBREL of an exchange was offered no PUBLISH of it is offered again; PUBRELs identical; no "
              "PUBREL before a successful PUBREC was delivered. " + SHAPE)
    ck.require("sim.dup_retransmissions")
    ck.require("sim.pubrel_retransmissions")
    ck.require("sim.publish_retransmissions", 20)
    return ck.finish()


def c04(tier, seed):
    ck = Check("C04", tier, seed, "exploration")
    _sim_part(ck, "C04", tier, seed,
              "the broker model acts as a conformant QoS 0/1/2 sender with uniquely tagged messages and MQTT retransmission rules (on session "
              "resume PUBLISH+DUP if no PUBREC yet, else PUBREL, original order): crash-point sweep over reference workloads with inbound traffic "
              "(reset at every byte boundary in both directions, 'ack batch delivered but write reported failed' at every client byte) and seeded "
              "mixes with up to 8 inbound messages, sessions kept/lost; monitor: (a) every delivered PUBLISH/PUBREL answered with the same id within "
              "5 virtual s on a connection that stays healthy, (b) PUBACK/PUBREC only after the PUBLISH, at most one PUBCOMP per delivered PUBREL and "
              "never before it, (c) delivered topic/payload/properties identical, QoS 2 count <= 1 and = 1 once the broker received PUBCOMP, QoS 1 "
              ">= 1 once it received PUBACK, (d) per QoS first deliveries in the broker's send order. " + SHAPE)
    ck.require("sim.app_deliveries", 100)
    ck.require("sim.pubrels_delivered", 50)
    ck.require("sim.acked_inbound_messages", 100)
    ck.require("sim.inbound_publishes_exactly_at_client_limit", 20)
    return ck.finish()


def c05(tier, seed):
    ck = Check("C05", tier, seed, "exploration")
    _sim_part(ck, "C05", tier, seed,
              "terminal actions (cancel(), async_disconnect rc 0 / rc 4 with properties, destruction, cancel->async_run->publish->cancel, per-operation "
              "signals of the three cancellation types) injected at every idle point (up to a cap) of seeded base scenarios covering never-connected, "
              "resolving, connecting (hung connect), handshake, back-off, connected idle/queued/throttled/mid-write/awaiting reply/mid-QoS 2, hung "
              "async_shutdown; plus seeded mixes; monitor: every handler exactly once, never destroyed un-invoked, never inside an initiating call, "
              "after the terminal action the context runs out of work without the clock advancing, completion codes as documented. " + SHAPE)
    ck.require("sim.terminal_placements", 100)
    ck.require("sim.drain_checks_passed", 100)
    ck.require("sim.requests_aborted_after_total_or_partial_signal", 20)
    ck.require("sim.timer_instant_placements", 50)
    return ck.finish()


def c06(tier, seed):
    ck = Check("C06", tier, seed, "exploration")
    _sim_part(ck, "C06", tier, seed,
              "bursts of 2-60 publishes of mixed QoS initiated in one instant and across instants, Receive Maximum absent/1/2/3/5/65535, acks out of "
              "order, resets at random byte offsets so that unanswered, failed-batch and never-written requests are merged on the next connection; "
              "monitor per connection: QoS>=1 PUBLISH packets (all PUBLISH packets if that CONNACK had no Receive Maximum) mapped to their initiation "
              "order form a strictly increasing sequence. " + SHAPE)
    ck.require("sim.connections_with_2plus_publishes", 100)
    ck.require("sim.ordered_retransmission_connections", 20)
    return ck.finish()


def c07(tier, seed):
    ck = Check("C07", tier, seed, "exploration")
    _sim_part(ck, "C07", tier, seed,
              "Receive Maximum 1-8/65535 with 4-30 publishes outstanding, slow and out-of-order acks, failing PUBRECs, reconnects; monitor at the "
              "client's edge: when a QoS>=1 PUBLISH (or a resumed PUBREL) is offered, exchanges open on that connection < Receive Maximum of its "
              "CONNACK (an exchange closes when the last byte of PUBACK / PUBCOMP / failing PUBREC has been read by the client); progress: at idle "
              "points on an established healthy connection with no write pending and quota free, no accepted publish is still untransmitted. " + SHAPE)
    ck.require("sim.quota_saturations", 100)
    ck.require("sim.progress_points_checked", 100)
    ck.require("sim.requests_aborted_after_total_or_partial_signal", 20)
    return ck.finish()


def c09(tier, seed):
    ck = Check("C09", tier, seed, "exploration")
    _sim_part(ck, "C09", tier, seed,
              "async_disconnect (reason 0 without properties, reason 4 with a Reason String) injected at every idle point (up to a cap) of seeded base "
              "scenarios: never connected, resolving, TCP connect hung, handshake, back-off, connected with queued / throttled / in-flight traffic, "
              "mid-write, connection lost while the DISCONNECT is written, hung async_shutdown; monitor: on the connection current at the call, after "
              "the write already in progress, the next write is the DISCONNECT alone with the requested code and properties and nothing follows; a "
              "connection established inside the window carries the DISCONNECT first; completion - initiation <= 5.000 s of virtual time; other "
              "operations end with operation_aborted; afterwards no write / connect / resolve until async_run. " + SHAPE)
    ck.require("sim.disconnects", 100)
    ck.require("sim.disconnects_on_the_wire", 30)
    return ck.finish()


def c10(tier, seed):
    ck = Check("C10", tier, seed, "exploration")
    _sim_part(ck, "C10", tier, seed,
              "random configurations (client id incl. empty, user name / password, Will with every Will property, CONNECT properties, keep-alive, "
              "optional authenticator with 0-2 challenge rounds) x broker lists of 1-4 entries (ports, paths, spaces, duplicates, a two-address "
              "host, unresolvable hosts) x outcome sequences per attempt (refused, unreachable, hung TCP, silent, CONNACK >= 0x80, close); "
              "monitor: first packet of every connection is the configured CONNECT (independent decoder), nothing but AUTH before a successful "
              "CONNACK is delivered, silent attempts abandoned exactly 5.000 s after async_connect, resolutions follow the cyclic list order, "
              "retries without delay except a 0.5-16.5 s pause when the list wraps. " + SHAPE)
    ck.require("sim.connections_with_traffic", 100)
    ck.require("sim.handshake_timeouts", 20)
    ck.require("sim.wrap_pauses", 20)
    ck.require("sim.immediate_retries", 20)
    return ck.finish()


def c12(tier, seed):
    ck = Check("C12", tier, seed, "exploration")
    _sim_part(ck, "C12", tier, seed,
              "keep-alive 0/1/2/5/10/60/300/65535 with optional Server Keep Alive override (0/1/2/3/7/30), QoS 0 traffic both ways, a broker that "
              "talks for ever / falls silent / falls silent and resumes, optional connection fault, write latency; monitor: next PINGREQ offered no "
              "later than max(interval start + K, end of the write pending then), interval start = CONNACK processed or previous PINGREQ written; a "
              "read that gets no byte is abandoned exactly 1.5*K after it was started (never earlier, never later); K = 0: no PINGREQ, no read "
              "timeout during an hour of silence. " + SHAPE)
    ck.require("sim.ping_intervals_checked", 100)
    ck.require("sim.read_timeouts", 50)
    ck.require("sim.keepalive0_connections", 5)
    ck.require("sim.midpacket_stalls_with_keepalive", 20)
    return ck.finish()


def c15(tier, seed):
    ck = Check("C15", tier, seed, "exploration")
    _sim_part(ck, "C15", tier, seed,
              "all 2^6 on/off combinations of Maximum Packet Size, Maximum QoS, Retain Available, Topic Alias Maximum, Wildcard Subscription "
              "Available, Shared+Identified Subscription Available x boundary requests (QoS = max and max+1, alias = max and max+1, packet size = "
              "limit and limit+1 computed with the reference encoder, wildcard / shared / identified subscriptions), issued while the client holds "
              "the CONNACK; broker-side monitor checks every received packet against what that CONNACK announced; application-side: a request "
              "exceeding exactly one capability completes at the same virtual instant, not inside the call, with the documented code, nothing on "
              "the wire; 4000 (thorough 70000) refused requests followed by 65535 accepted ones must not hit pid_overrun. " + SHAPE)
    ck.require("sim.capability_combinations", 64)
    ck.require("sim.requests_expected_to_be_refused", 100)
    ck.require("sim.idleak_accepted_requests", 65535)
    return ck.finish()


def c13(tier, seed):
    ck = Check("C13", tier, seed, "exploration")
    _sim_part(ck, "C13", tier, seed,
              "histories of subscribes (success / failing codes), connection losses and Session Present 0/1 (60% session loss); monitor replays the log "
              "through the model (flag set by a subscribe completing with a code < 0x80; at each completed handshake with Session Present 0: one "
              "session_expired owed iff flag, then cleared) and compares with the session_expired deliveries of async_receive, which must precede "
              "messages of the new session. " + SHAPE)
    ck.require("sim.session_losses_with_subscription", 10)
    ck.require("sim.session_expired_delivered", 10)
    ck.require("sim.handshakes_session_present", 10)
    return ck.finish()


def c14(tier, seed):
    ck = Check("C14", tier, seed, "exploration")
    _sim_part(ck, "C14", tier, seed,
              "subscribe/unsubscribe with 1-3 filters, all option combinations, Subscription Identifier and User Properties, faults and reconnects; "
              "monitor as for C01 with SUBACK/UNSUBACK: success needs the broker to have received exactly the requested filters, options and "
              "properties and a genuine delivered ack for that id; handler codes equal the ack's, one per topic. " + SHAPE)
    ck.require("sim.sub_success_completions", 100)
    return ck.finish()


CHECKS = {"C01": c01, "C02": c02, "C03": c03, "C04": c04, "C05": c05, "C06": c06, "C07": c07, "C09": c09, "C10": c10, "C12": c12, "C13": c13, "C14": c14, "C15": c15, "C17": c17, "C18": c18, "C19": c19, "C20": c20, "C16": c16, "C08": c08, "C11": c11}


def run(prop, tier, seed):
    if prop not in CHECKS:
        print("HARNESS: no check for %s" % prop)
        return 2
    try:
        return CHECKS[prop](tier, seed)
    except HarnessError as e:
        print("HARNESS: " + str(e))
        return 2
