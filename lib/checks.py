"""Property checks: which engines run for which property, with what budgets."""
import os
import sys
import tempfile
import shutil

import vlib
from vlib import Check, HarnessError, target, build, run_shards

# ------------------------------------------------------------------------------------------ targets
target("rc_probe", ["probes/rc_probe.cpp"])

ALL_TARGETS = lambda: list(vlib.TARGETS.keys())


def setup():
    try:
        build(ALL_TARGETS())
    except HarnessError as e:
        print("HARNESS: " + str(e))
        return 2
    return 0


def _tmp(prop):
    d = os.path.join(vlib.BUILD, "run", "%s-%d" % (prop, os.getpid()))
    os.makedirs(d, exist_ok=True)
    return d


# ------------------------------------------------------------------------------------------ C20
def c20(tier, seed):
    ck = Check("C20", tier, seed, "exploration")
    exe = build(["rc_probe"])["rc_probe"]
    d = _tmp("C20")
    res = run_shards(exe, [], 16, seed, 600, d)
    ck.add_results("rc_probe", res,
                   "all 9 reason-code categories x 256 byte values, one forked ASan child per pair, tables compiled "
                   "with internal linkage so ASan guards them; oracle: accepted => listed by MQTT 5 for that packet, "
                   "server-sendable => accepted, accepted value == input byte, child exits cleanly. distinct = "
                   "(category, byte) pairs evaluated; non-trivial = every pair (each is a distinct input of the finite space)")
    ck.exhaustive = True
    ck.assumptions += ["reference admission tables transcribed from OASIS MQTT 5.0 tables 2-6, 3.2.2.2, 3.4.2.1, 3.9.3, 3.11.3, 3.14.2.1, 3.15.2.1",
                       "pairs listed by MQTT 5 only for client-sent packets (DISCONNECT 0x04, AUTH 0x19) or only in table 2-6 (DISCONNECT 0x8C) are don't-care",
                       "clang 14 ASan red zones around internal-linkage globals"]
    if ck.evaluations != 9 * 256 and not ck.violations:
        ck.harness_errors.append("expected 2304 pairs, evaluated %d" % ck.evaluations)
    shutil.rmtree(d, ignore_errors=True)
    return ck.finish()


CHECKS = {"C20": c20}


def run(prop, tier, seed):
    if prop not in CHECKS:
        print("HARNESS: no check for %s" % prop)
        return 2
    try:
        return CHECKS[prop](tier, seed)
    except HarnessError as e:
        print("HARNESS: " + str(e))
        return 2
