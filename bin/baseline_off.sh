#!/bin/bash
# Runs the repository's own test suite with the verification guard OFF
# (BOOST_MQTT5_VERIF is never defined by the repository's build), the same way
# the baseline in /root/.vp/BASELINE.json was produced:
#   cmake -G Ninja -B /repo/_build ; cmake --build ; ctest --test-dir /repo/_build/test
# Exit status is ctest's. JUnit output goes to $1 (default /repo/_build/verif_baseline.junit.xml).
set -u
B=/repo/_build
OUT=${1:-$B/verif_baseline.junit.xml}
J=$(nproc 2>/dev/null || echo 8)
if [ ! -f "$B/build.ninja" ]; then
  cmake -S /repo -B "$B" -G Ninja -DCMAKE_BUILD_TYPE=RelWithDebInfo -DBUILD_TESTING=ON \
    -DBOOST_MQTT5_PUBLIC_BROKER_TESTS=ON -DCMAKE_CXX_FLAGS="-Wno-error" -DCMAKE_C_FLAGS="-Wno-error" \
    -DCMAKE_POLICY_VERSION_MINIMUM=3.5 > "$B.configure.log" 2>&1 || { tail -30 "$B.configure.log"; echo "configure failed"; exit 2; }
fi
cmake --build "$B" -j"$J" > "$B/verif_build.log" 2>&1 || { tail -40 "$B/verif_build.log"; echo "build failed"; exit 2; }
cmake --build "$B" -j"$J" --target boost_mqtt5-tests >> "$B/verif_build.log" 2>&1 || { tail -40 "$B/verif_build.log"; echo "build failed"; exit 2; }
CASES=$B/verif_cases.junit.xml
rm -f "$CASES"
BOOST_TEST_LOGGER=JUNIT,test_suite,"$CASES" \
  ctest --test-dir "$B/test" -j8 --timeout 900 --output-junit "$OUT" 2>&1 | tail -15
rc=${PIPESTATUS[0]}
python3 - "$CASES" <<'PY'
import sys, xml.etree.ElementTree as ET
try:
    root = ET.parse(sys.argv[1]).getroot()
except Exception as e:
    print("baseline_off: no per-case report (%s)" % e); sys.exit(0)
tot = fail = skip = 0
for tc in root.iter('testcase'):
    tot += 1
    if tc.find('failure') is not None or tc.find('error') is not None:
        fail += 1; print("FAILED CASE", tc.get('classname'), tc.get('name'))
    elif tc.find('skipped') is not None:
        skip += 1
print("baseline_off: cases=%d failed=%d skipped=%d passed=%d" % (tot, fail, skip, tot - fail - skip))
PY
echo "baseline_off: ctest rc=$rc junit=$OUT cases=$CASES"
exit $rc
